// Package evmsyncstream: correspondence of the real StateDBWrapper (ctrlers/vm/evm/statedb.go) with
// the Lean model Rigo/EvmSync.lean on the wrapper's own trace events, plus an implementation-level
// monitor of the sync protocol written from the statement of C17.
//
// Histories with contract transactions are generated with the shared application generator
// (apphist, WithEVM) and extended by contract programs that touch fresh addresses inside reverting
// call frames (evmgen/sync.go). Every transaction that reaches the EVM leaves a trace
// (verifhook.Trace: snapshot n / syncin addr tag / revert id / unsync addr id / syncout addr); the
// trace is converted into driver lines (snapshot / access / revert / finish / finalise), the model's
// predicted tags, un-sync sets and sync-out sets are compared with the real ones, and the model's
// discipline automaton must accept the real trace.
package evmsyncstream

import (
	"fmt"
	"os"
	"sort"
	"strings"

	"github.com/ethereum/go-ethereum/common"
	"github.com/holiman/uint256"
	ctrlertypes "github.com/rigochain/rigo-go/ctrlers/types"
	rtypes "github.com/rigochain/rigo-go/types"
	tmtypes "github.com/tendermint/tendermint/types"
	"verifharness/internal/appdrv"
	"verifharness/internal/apphist"
	"verifharness/internal/appmon"
	vcommon "verifharness/internal/common"
	"verifharness/internal/evmgen"
	"verifharness/internal/rng"
)

// one driver line with what the real code did
type line struct {
	in   string // driver input
	want string // real reaction in the model's output vocabulary ("" = reset)
	tx   int    // index of the transaction (within the history) the line belongs to, -1 = none
	last bool   // last line of its transaction: the discipline phase must be idle again
}

type txInfo struct {
	hash   string
	ok     bool
	events []string
}

// observer collects the traces of one history and runs the implementation-level monitor.
type observer struct {
	lines  []line
	txs    []txInfo
	viol   []vcommon.Violation
	checks map[string]int
	shapes vcommon.Distinct
	dist   map[string]int
	evmPre map[string][2]string // EVM-side balance/nonce of every native account before the tx
}

func newObserver() *observer {
	return &observer{checks: map[string]int{}, shapes: vcommon.Distinct{}, dist: map[string]int{}}
}

func (m *observer) fail(s *apphist.Sim, kind, detail string) {
	for _, v := range m.viol {
		if v.Kind == kind {
			return // one per kind and history
		}
	}
	m.viol = append(m.viol, vcommon.Violation{Property: "C17", Kind: kind, Detail: detail, Ops: s.ReplayLines()})
}

func (m *observer) OnInit(s *apphist.Sim, post string) {}
func (m *observer) OnBegin(s *apphist.Sim, a *apphist.BeginArgs, pre, post string, out appdrv.BeginOut) {
	// BeginBlock builds a fresh wrapper over a fresh go-ethereum StateDB: revision ids restart at 0
	m.lines = append(m.lines, line{in: "reset", want: "reset", tx: -1})
}
func (m *observer) OnEnd(s *apphist.Sim, pre, post string, ups []appdrv.ValUp) {}
func (m *observer) OnCommit(s *apphist.Sim, post string, hash []byte)          {}
func (m *observer) OnRestart(s *apphist.Sim, infoOK bool)                      {}
func (m *observer) OnQuery(s *apphist.Sim, path string, data []byte, h int64, canon string) {
}

func addr20(b []byte) common.Address {
	var a common.Address
	copy(a[:], b)
	return a
}

func unhex(h string) []byte {
	if h == "-" {
		return nil
	}
	b := make([]byte, len(h)/2)
	for i := range b {
		fmt.Sscanf(h[2*i:2*i+2], "%02x", &b[i])
	}
	return b
}

// evmView reads balance / nonce of the given native accounts from the node's go-ethereum state.
func evmView(s *apphist.Sim, addrs []string) map[string][2]string {
	w := s.N.App.VerifEVM().VerifStateDB()
	if w == nil || w.StateDB == nil {
		return nil
	}
	out := map[string][2]string{}
	for _, a := range addrs {
		b := unhex(a)
		if len(b) != 20 {
			continue
		}
		out[a] = [2]string{w.StateDB.GetBalance(addr20(b)).String(), fmt.Sprint(w.StateDB.GetNonce(addr20(b)))}
	}
	return out
}

func acctAddrs(st *appmon.State) []string {
	var out []string
	for a := range st.Accts {
		out = append(out, a)
	}
	sort.Strings(out)
	return out
}

func (m *observer) OnPreDeliver(s *apphist.Sim, bz []byte) {
	m.evmPre = evmView(s, acctAddrs(appmon.Parse(s.N.Dump())))
}

func joinOrDash(l []string) string {
	if len(l) == 0 {
		return "-"
	}
	return strings.Join(l, ",")
}

// shapeOf abstracts a trace to its event kinds (run lengths capped) for the distinct-case count.
func shapeOf(events []string) string {
	var sb strings.Builder
	prev, n := "", 0
	flush := func() {
		if prev == "" {
			return
		}
		sb.WriteString(prev)
		if n > 1 {
			if n > 3 {
				n = 3
			}
			sb.WriteString(fmt.Sprint(n))
		}
	}
	for _, e := range events {
		k := map[string]string{"snapshot": "S", "syncin": "i", "revert": "R", "unsync": "u", "syncout": "o"}[strings.Fields(e)[0]]
		if k == prev {
			n++
			continue
		}
		flush()
		prev, n = k, 1
	}
	flush()
	return sb.String()
}

func (m *observer) OnDeliver(s *apphist.Sim, bz []byte, pre, post string, o appdrv.TxOut, tr *appdrv.EvmTrace) {
	if tr == nil || len(tr.Events) == 0 {
		return
	}
	hash := appdrv.Hex(tmtypes.Tx(bz).Hash())
	ok := o.Code == 0
	ti := len(m.txs)
	m.txs = append(m.txs, txInfo{hash: hash, ok: ok, events: tr.Events})
	m.shapes.Add(fmt.Sprintf("%v/%s", ok, shapeOf(tr.Events)))

	// ---------------------------------------------------------------- driver lines
	type ev struct {
		kind, addr string
		n          int
	}
	var evs []ev
	for _, e := range tr.Events {
		f := strings.Fields(e)
		var n int
		fmt.Sscan(f[2], &n)
		evs = append(evs, ev{f[0], f[1], n})
	}
	var syncouts []string
	for _, e := range evs {
		if e.kind == "syncout" {
			syncouts = append(syncouts, e.addr)
		}
	}
	sortedOuts := append([]string(nil), syncouts...)
	sort.Strings(sortedOuts)
	finished := false
	finish := func() {
		if finished {
			return
		}
		finished = true
		m.lines = append(m.lines, line{in: "finish", want: "syncout " + joinOrDash(sortedOuts), tx: ti})
		if ok {
			m.lines = append(m.lines, line{in: "finalise", want: "ok", tx: ti})
		}
	}
	nRevert, nUnsync, nestedRevert, resync := 0, 0, 0, 0
	everUnsynced := map[string]bool{}
	firstSnap, secondSnap := -1, -1 // ExecuteTrx's snapshot and the top-level call frame's
	for i := 0; i < len(evs); i++ {
		e := evs[i]
		switch e.kind {
		case "snapshot":
			if firstSnap < 0 {
				firstSnap = e.n
			} else if secondSnap < 0 {
				secondSnap = e.n
			}
			m.lines = append(m.lines, line{in: fmt.Sprintf("snapshot %d", e.n), want: fmt.Sprintf("snap %d", e.n), tx: ti})
		case "syncin":
			if everUnsynced[e.addr] {
				resync++
			}
			m.lines = append(m.lines, line{in: "access " + e.addr, want: fmt.Sprintf("tag %d", e.n), tx: ti})
		case "revert":
			var un []string
			j := i + 1
			for j < len(evs) && evs[j].kind == "unsync" {
				if evs[j].n != e.n {
					m.fail(s, "sync-protocol", fmt.Sprintf("tx %s: un-sync event for revision %d inside revert %d", hash, evs[j].n, e.n))
				}
				un = append(un, evs[j].addr)
				everUnsynced[evs[j].addr] = true
				j++
			}
			sort.Strings(un)
			nRevert++
			nUnsync += len(un)
			if e.n != firstSnap && e.n != secondSnap {
				nestedRevert++
			}
			m.lines = append(m.lines, line{in: fmt.Sprintf("revert %d", e.n), want: "unsync " + joinOrDash(un), tx: ti})
			i = j - 1
		case "unsync":
			m.fail(s, "sync-protocol", fmt.Sprintf("tx %s: un-sync of %s outside RevertToSnapshot", hash, e.addr))
		case "syncout":
			finish()
		}
	}
	finish()
	m.lines[len(m.lines)-1].last = true

	m.dist[fmt.Sprintf("tx ok=%v", ok)]++
	if nestedRevert > 0 {
		m.dist[fmt.Sprintf("tx ok=%v with inner-frame revert", ok)]++
	}
	if nUnsync > 0 && nestedRevert > 0 {
		m.dist["tx with inner-frame revert un-syncing addresses"]++
	}
	if resync > 0 {
		m.dist["address synced in again after un-sync"]++
	}
	m.dist["events"] += len(evs)

	// ---------------------------------------------------------------- monitor (independent of the model)
	// tag rule, from the statement: `revert id` un-syncs exactly the addresses whose (still standing)
	// sync-in happened after `Snapshot()` returned id
	snapAt := map[int]int{}      // revision id -> event index
	syncedAt := map[string]int{} // standing sync-ins: address -> event index
	for i := 0; i < len(evs); i++ {
		e := evs[i]
		switch e.kind {
		case "snapshot":
			snapAt[e.n] = i
		case "syncin":
			if _, dup := syncedAt[e.addr]; dup {
				m.fail(s, "sync-protocol", fmt.Sprintf("tx %s: %s synced in twice without un-sync in between", hash, e.addr))
			}
			syncedAt[e.addr] = i
		case "revert":
			at, known := snapAt[e.n]
			if !known {
				m.fail(s, "sync-protocol", fmt.Sprintf("tx %s: revert to revision %d that was not taken in this transaction", hash, e.n))
				continue
			}
			var want []string
			for a, k := range syncedAt {
				if k > at {
					want = append(want, a)
				}
			}
			sort.Strings(want)
			var got []string
			for j := i + 1; j < len(evs) && evs[j].kind == "unsync"; j++ {
				got = append(got, evs[j].addr)
			}
			sort.Strings(got)
			if strings.Join(want, ",") != strings.Join(got, ",") {
				m.fail(s, "sync-protocol", fmt.Sprintf("tx %s: revert %d un-synced [%s]; the addresses synced in after that snapshot are [%s] (trace %v)",
					hash, e.n, strings.Join(got, ","), strings.Join(want, ","), tr.Events))
			}
			for _, a := range got {
				delete(syncedAt, a)
			}
			gone := 0
			for id, k := range snapAt { // the revision and all later ones are gone
				if k >= at {
					delete(snapAt, id)
					gone++
				}
			}
			if gone > 1 {
				m.dist["revert to an outer id (several live revisions discarded)"]++
			}
			m.checks["tag-rule"]++
		}
	}
	var standing []string
	for a := range syncedAt {
		standing = append(standing, a)
	}
	sort.Strings(standing)
	if !ok {
		// (a) failed contract transaction: nothing synced out, native ledger unchanged up to empty accounts
		if len(syncouts) > 0 {
			m.fail(s, "sync-out-on-failure", fmt.Sprintf("failed tx %s (%s) synced out %v", hash, appdrv.ErrKind(o.Code, o.Log), syncouts))
		}
		if appmon.NonEmptyDump(pre) != appmon.NonEmptyDump(post) {
			a, b := appmon.DiffTokens(appmon.NonEmptyDump(pre), appmon.NonEmptyDump(post))
			m.fail(s, "sync-out-on-failure", fmt.Sprintf("failed tx %s (%s) changed the native ledger: before-only=%v after-only=%v", hash, appdrv.ErrKind(o.Code, o.Log), a, b))
		}
		if len(standing) > 0 {
			m.fail(s, "sync-protocol", fmt.Sprintf("failed tx %s: %v still synced in after the top-level revert", hash, standing))
		}
		m.checks["failure-atomic"]++
	} else {
		// (b) success: exactly the standing sync-ins are synced out, once each
		if strings.Join(standing, ",") != strings.Join(sortedOuts, ",") {
			m.fail(s, "sync-protocol", fmt.Sprintf("tx %s: synced out [%s], standing sync-ins [%s]", hash, strings.Join(sortedOuts, ","), strings.Join(standing, ",")))
		}
		m.checks["syncout-set"]++
	}
	// (c) discipline proxy: after the transaction the native account of every synced-out address
	// equals go-ethereum's balance / nonce, and go-ethereum's copy of every OTHER native account is
	// what it was before the transaction (no balance / nonce write outside the accessed set)
	postSt := appmon.Parse(post)
	view := evmView(s, acctAddrs(postSt))
	outSet := map[string]bool{}
	for _, a := range syncouts {
		outSet[a] = true
	}
	if view != nil {
		w := s.N.App.VerifEVM().VerifStateDB()
		for _, a := range acctAddrs(postSt) {
			ac := postSt.Accts[a]
			v, have := view[a]
			if !have {
				continue
			}
			if outSet[a] {
				if v[0] != ac.Bal.String() || v[1] != fmt.Sprint(ac.Nonce) {
					if ok && !w.StateDB.Exist(addr20(unhex(a))) && v[0] == ac.Bal.String() && ac.Code != "-" {
						// known: Finish copies the nonce of a self-destructed contract before Finalise deletes it
						m.fail(s, "evm-ref-selfdestruct-nonce", fmt.Sprintf("tx %s: self-destructed contract %s keeps nonce %d in the native ledger; go-ethereum's account is gone", hash, a, ac.Nonce))
						continue
					}
					m.fail(s, "sync-out-mismatch", fmt.Sprintf("tx %s: native account %s is %s/%d after sync-out, go-ethereum holds %s/%s", hash, a, ac.Bal, ac.Nonce, v[0], v[1]))
				}
				m.checks["syncout-value"]++
			} else if p, had := m.evmPre[a]; had && p != v {
				m.fail(s, "undisciplined-write", fmt.Sprintf("tx %s (ok=%v): go-ethereum's copy of %s changed from %s/%s to %s/%s although the address was not synced out", hash, ok, a, p[0], p[1], v[0], v[1]))
			}
		}
		m.checks["discipline-proxy"]++
	}
}

// compact renders a trace for the evidence samples (addresses shortened, precompile sync-ins folded).
func compact(events []string) string {
	var out []string
	pc := 0
	for _, e := range events {
		f := strings.Fields(e)
		a := f[1]
		if f[0] == "syncin" && strings.HasPrefix(a, "00000000000000000000000000000000000000") && a[38:] != "00" && a[38:39] == "0" {
			pc++
			continue
		}
		if pc > 0 {
			out = append(out, fmt.Sprintf("syncin <%d precompiles>", pc))
			pc = 0
		}
		if len(a) > 8 {
			a = a[:4] + ".." + a[len(a)-4:]
		}
		switch f[0] {
		case "snapshot", "revert":
			out = append(out, f[0]+" "+f[2])
		case "syncin":
			out = append(out, "syncin "+a+" tag "+f[2])
		case "unsync":
			out = append(out, "unsync "+a)
		case "syncout":
			out = append(out, "syncout "+a)
		}
	}
	return strings.Join(out, "; ")
}

// ---------------------------------------------------------------------------- generator

type custom struct {
	touch, retouch, recurse rtypes.Address
	pending                 map[string]*rtypes.Address
}

func fundedKey(s *apphist.Sim, r *rng.R) *appdrv.Key {
	for i := 0; i < 10; i++ {
		k := s.Keys[r.Intn(len(s.Keys))]
		if ac := s.N.AccountView(k.Addr); ac != nil && ac.Balance.Cmp(apphist.Rigo(2)) > 0 {
			return k
		}
	}
	return s.Keys[r.Intn(len(s.Keys))]
}

func contractTx(s *apphist.Sim, r *rng.R, k *appdrv.Key, to rtypes.Address, amt *uint256.Int, data []byte) []byte {
	nonce := uint64(0)
	if ac := s.N.AccountView(k.Addr); ac != nil {
		nonce = ac.Nonce
	}
	spec := &appdrv.TxSpec{Version: 1, Time: s.Time*1000000000 + int64(r.Intn(1000)), Nonce: nonce, From: k.Addr, To: to, Amount: amt,
		Gas: 3000000, GasPrice: s.N.App.VerifGov().VerifActiveParams().GasPrice(), Type: ctrlertypes.TRX_CONTRACT,
		Payload: &ctrlertypes.TrxPayloadContract{Data: data}, Signer: k, SignChain: s.N.ChainID}
	return spec.Build()
}

// next returns one transaction aimed at the sync protocol: deployments of the three programs first,
// then calls with fresh / known / contract addresses as the touched address.
func (c *custom) next(s *apphist.Sim, r *rng.R) []byte {
	k := fundedKey(s, r)
	deploy := func(p evmgen.Program, slot *rtypes.Address) []byte {
		s.PendingProg[string(p.Init)] = p
		c.pending[string(p.Init)] = slot
		return contractTx(s, r, k, rtypes.ZeroAddress(), uint256.NewInt(0), p.Init)
	}
	switch {
	case c.touch == nil:
		return deploy(evmgen.TouchReverter(), &c.touch)
	case c.retouch == nil:
		return deploy(evmgen.Retoucher(), &c.retouch)
	case c.recurse == nil:
		return deploy(evmgen.Recurser(), &c.recurse)
	}
	x := func() rtypes.Address {
		switch r.Pick(4, 3, 2, 1) {
		case 0:
			return r.Bytes(20)
		case 1:
			return s.Keys[r.Intn(len(s.Keys))].Addr
		case 2:
			if len(s.Contracts) > 0 {
				return s.Contracts[r.Intn(len(s.Contracts))].Addr
			}
			return r.Bytes(20)
		default:
			return k.Addr
		}
	}
	val := uint256.NewInt(0)
	if r.Chance(70) {
		val = uint256.NewInt(uint64(r.Range(2, 2000)))
	}
	if r.Chance(55) {
		callee := c.touch
		if r.Chance(20) && len(s.Contracts) > 0 {
			callee = s.Contracts[r.Intn(len(s.Contracts))].Addr
		}
		data := append(evmgen.Word(callee), evmgen.Word(x())...)
		return contractTx(s, r, k, c.retouch, val, data)
	}
	n := r.Range(1, 7)
	return contractTx(s, r, k, c.recurse, val, evmgen.Word([]byte{byte(n)}))
}

func (c *custom) after(bz []byte, o appdrv.TxOut) {
	tx := &ctrlertypes.Trx{}
	if o.Code != 0 || tx.Decode(bz) != nil || tx.Type != ctrlertypes.TRX_CONTRACT || !rtypes.IsZeroAddress(tx.To) || len(o.Data) != 20 {
		return
	}
	if p, ok := tx.Payload.(*ctrlertypes.TrxPayloadContract); ok {
		if slot, ok := c.pending[string(p.Data)]; ok && *slot == nil {
			*slot = append([]byte(nil), o.Data...)
		}
	}
}

// runHistory generates and executes one history (shared generator + sync-protocol programs).
func runHistory(seed uint64, r *rng.R, work string, opt apphist.Options, obs apphist.Observer) (*apphist.Sim, error) {
	s, err := apphist.NewSim(seed, r, work, opt)
	if err != nil {
		return nil, err
	}
	s.Obs = obs
	s.Init()
	c := &custom{pending: map[string]*rtypes.Address{}}
	nblocks := r.Range(opt.MaxBlocks/2, opt.MaxBlocks)
	for b := 0; b < nblocks && s.N.Dead == ""; b++ {
		if !s.Begin() {
			break
		}
		ntx := r.Intn(opt.TxPerBlock + 1)
		for i := 0; i < ntx; i++ {
			var bz []byte
			if r.Chance(45) {
				bz = c.next(s, r)
			} else {
				bz = s.GenTx()
			}
			o, _ := s.Deliver(bz)
			s.After(bz, o)
			c.after(bz, o)
			if r.Chance(4) { // replay of the same bytes
				o2, _ := s.Deliver(bz)
				s.After(bz, o2)
			}
		}
		if !s.End() || !s.Commit() {
			break
		}
		if r.Chance(6) {
			if err := s.Restart(); err != nil {
				return s, err
			}
		}
	}
	return s, nil
}

// ---------------------------------------------------------------------------- comparison

func stripPhase(l string) (out, phase string) {
	i := strings.LastIndex(l, " ")
	if i < 0 {
		return l, ""
	}
	return l[:i], l[i+1:]
}

// compare pipes the collected lines to the Lean driver; returns the first disagreement (nil if none)
// and reports traces the model's discipline automaton rejects.
func compare(res *vcommon.Result, hi int, s *apphist.Sim, m *observer, driver string) {
	if len(m.lines) == 0 {
		return
	}
	in := make([]string, len(m.lines))
	for i, l := range m.lines {
		in[i] = l.in
	}
	out, err := vcommon.RunDriver(driver, "evmsync", in)
	if err != nil {
		res.Error = err.Error()
		return
	}
	if len(out) != len(in) {
		res.Error = fmt.Sprintf("model produced %d lines for %d inputs", len(out), len(in))
		return
	}
	for i, l := range m.lines {
		if l.in == "reset" {
			continue
		}
		res.Evaluations++
		got, phase := stripPhase(out[i])
		if got != l.want {
			tx := m.txs[l.tx]
			res.Disagreements = append(res.Disagreements, vcommon.Disagreement{History: hi, Index: i, Op: l.in,
				Impl: l.want, Model: got + fmt.Sprintf(" (tx %s ok=%v trace %v)", tx.hash, tx.ok, tx.events), Ops: s.ReplayLines()})
			return
		}
		if phase == "undisciplined" || (l.last && phase != "idle") {
			tx := m.txs[l.tx]
			m.fail(s, "undisciplined-trace", fmt.Sprintf("tx %s (ok=%v): the wrapper's trace leaves the ExecuteTrx / access-list discipline at `%s` (phase %s): %v", tx.hash, tx.ok, l.in, phase, tx.events))
			return
		}
	}
}

func knownKind(v vcommon.Violation) bool {
	bz, err := os.ReadFile("/verif/known_findings.jsonl")
	if err != nil {
		return false
	}
	for _, l := range strings.Split(string(bz), "\n") {
		if strings.Contains(l, `"property": "`+v.Property+`"`) && strings.Contains(l, `"kind": "`+v.Kind+`"`) && !strings.Contains(l, `"status": "fixed"`) {
			return true
		}
	}
	return false
}

// shrink drops delivered transactions one at a time while the same violation kind recurs.
func shrink(v vcommon.Violation, work, driver string) []string {
	cur := v.Ops
	same := func(lines []string, n int) bool {
		hw := fmt.Sprintf("%s/shrink%d", work, n)
		_ = os.MkdirAll(hw, 0755)
		defer os.RemoveAll(hw)
		m := newObserver()
		s, err := apphist.RunReplay(lines, hw, m)
		if s != nil && s.N != nil {
			defer s.N.Close()
		}
		if err != nil {
			return false
		}
		tmp := vcommon.NewResult("evmsync", 0, "")
		compare(tmp, 0, s, m, driver)
		for _, w := range m.viol {
			if w.Kind == v.Kind {
				return true
			}
		}
		return false
	}
	budget := 40
	for i := len(cur) - 1; i >= 0 && budget > 0; i-- {
		f := strings.Fields(cur[i])
		if len(f) == 0 || f[0] != "deliver" {
			continue
		}
		cand := append(append([]string(nil), cur[:i]...), cur[i+1:]...)
		budget--
		if same(cand, budget) {
			cur = cand
		}
	}
	return cur
}

func collect(res *vcommon.Result, hi int, s *apphist.Sim, m *observer, work, driver string, doShrink bool) {
	nd := len(res.Disagreements)
	compare(res, hi, s, m, driver)
	if len(res.Disagreements) > nd && doShrink {
		// shrink the disagreeing history: keep dropping transactions while some disagreement remains
		d := &res.Disagreements[len(res.Disagreements)-1]
		cur := d.Ops
		budget := 30
		for i := len(cur) - 1; i >= 0 && budget > 0; i-- {
			f := strings.Fields(cur[i])
			if len(f) == 0 || f[0] != "deliver" {
				continue
			}
			cand := append(append([]string(nil), cur[:i]...), cur[i+1:]...)
			budget--
			hw := fmt.Sprintf("%s/dshrink%d", work, budget)
			_ = os.MkdirAll(hw, 0755)
			m2 := newObserver()
			s2, err := apphist.RunReplay(cand, hw, m2)
			if err == nil {
				tmp := vcommon.NewResult("evmsync", 0, "")
				compare(tmp, 0, s2, m2, driver)
				if len(tmp.Disagreements) > 0 {
					cur = cand
				}
			}
			if s2 != nil && s2.N != nil {
				s2.N.Close()
			}
			_ = os.RemoveAll(hw)
		}
		d.Ops = cur
	}
	for _, v := range m.viol {
		if doShrink && !knownKind(v) {
			v.Ops = shrink(v, work, driver)
		}
		res.Violations = append(res.Violations, v)
	}
	for k, n := range m.checks {
		res.Distribution["monitor:"+k] += n
	}
	for k, n := range m.dist {
		res.Distribution[k] += n
	}
}

// Run is the stream entry point (seed, tier quick|thorough, scratch dir, rigodriver path, optional replay lines).
func Run(seed uint64, tier, work, driver string, replay []string) *vcommon.Result {
	res := vcommon.NewResult("evmsync", seed, tier)
	res.Rule = "generated block histories with contract deployments / calls / transfers to contracts (shared generator) plus programs that touch " +
		"fresh addresses inside reverting call frames, re-touch them afterwards and recurse with reverts at odd depths, executed on the real RigoApp; " +
		"a case is one wrapper event (Snapshot / sync-in / RevertToSnapshot with its un-sync set / Finish with its sync-out set / Finalise) replayed on the Lean model; " +
		"distinct_nontrivial counts distinct (outcome, event-kind sequence) shapes of transaction traces"
	shapes := vcommon.Distinct{}
	if replay != nil {
		hw := work + "/replay"
		_ = os.MkdirAll(hw, 0755)
		m := newObserver()
		s, err := apphist.RunReplay(replay, hw, m)
		if err != nil {
			res.Error = err.Error()
			return res
		}
		res.Histories = 1
		collect(res, 0, s, m, work, driver, false)
		s.N.Close()
		_ = os.RemoveAll(hw)
		res.DistinctNontrivial = len(m.shapes)
		res.Samples = append(res.Samples, replay[:1]...)
		return res
	}
	r := rng.New(seed)
	nh := 40
	opt := apphist.Options{MaxBlocks: 16, TxPerBlock: 6, InvalidPct: 12, WithEVM: true}
	if tier == "thorough" {
		nh = 200
		opt.MaxBlocks = 50
		opt.TxPerBlock = 8
	}
	for i := 0; i < nh; i++ {
		hr := r.Fork()
		hw := fmt.Sprintf("%s/h%d", work, i)
		_ = os.MkdirAll(hw, 0755)
		m := newObserver()
		s, err := runHistory(seed*1000+uint64(i), hr, hw, opt, m)
		if err != nil {
			res.Error = err.Error()
			_ = os.RemoveAll(hw)
			return res
		}
		res.Histories++
		if p := os.Getenv("VERIF_EVMSYNC_DUMP"); p != "" && i == 0 {
			_ = os.WriteFile(p, []byte("# property=C17 stream=evmsync seed="+fmt.Sprint(seed)+"\n"+strings.Join(s.ReplayLines(), "\n")+"\n"), 0644)
		}
		collect(res, i, s, m, hw, driver, true)
		s.N.Close()
		_ = os.RemoveAll(hw)
		if res.Error != "" {
			return res
		}
		for k := range m.shapes {
			shapes.Add(k)
		}
		if s.N != nil && s.N.Dead != "" {
			res.Notes = append(res.Notes, fmt.Sprintf("history %d: node died: %.200s", i, s.N.Dead))
		}
		for _, t := range m.txs {
			if len(res.Samples) < 6 && strings.Contains(shapeOf(t.events), "Ru") {
				res.Samples = append(res.Samples, fmt.Sprintf("tx %s ok=%v: %s", t.hash[:12], t.ok, compact(t.events)))
			}
		}
		fresh := 0
		for _, v := range res.Violations {
			if !knownKind(v) {
				fresh++
			}
		}
		if len(res.Disagreements) >= 3 || fresh >= 4 {
			break
		}
	}
	res.DistinctNontrivial = len(shapes)
	return res
}
