// Package common: result records, Lean driver invocation, work directories.
package common

import (
	"bytes"
	"encoding/json"
	"fmt"
	"os"
	"os/exec"
	"path/filepath"
	"sort"
	"strings"
	"time"
)

// Disagreement between the implementation and the Lean model on one operation.
type Disagreement struct {
	History int      `json:"history"`
	Index   int      `json:"index"`
	Op      string   `json:"op"`
	Impl    string   `json:"impl"`
	Model   string   `json:"model"`
	Ops     []string `json:"ops,omitempty"` // shrunk operation list reproducing it
}

// Violation reported by an implementation-level monitor.
type Violation struct {
	Property string   `json:"property"`
	Kind     string   `json:"kind"` // short machine key, matched against known_findings.jsonl
	Detail   string   `json:"detail"`
	Ops      []string `json:"ops,omitempty"`
	Replay   string   `json:"replay,omitempty"`
}

type Result struct {
	Stream             string         `json:"stream"`
	Seed               uint64         `json:"seed"`
	Tier               string         `json:"tier"`
	Evaluations        int            `json:"evaluations"`
	Histories          int            `json:"histories"`
	DistinctNontrivial int            `json:"distinct_nontrivial"`
	Rule               string         `json:"rule"`
	Distribution       map[string]int `json:"distribution"`
	Samples            []string       `json:"samples"`
	Disagreements      []Disagreement `json:"disagreements"`
	Violations         []Violation    `json:"violations"`
	Notes              []string       `json:"notes,omitempty"`
	Error              string         `json:"error,omitempty"`
}

func NewResult(stream string, seed uint64, tier string) *Result {
	return &Result{Stream: stream, Seed: seed, Tier: tier, Distribution: map[string]int{}}
}

func (r *Result) Count(key string) { r.Distribution[key]++ }

func (r *Result) Write(path string) error {
	if r.Disagreements == nil {
		r.Disagreements = []Disagreement{}
	}
	if r.Violations == nil {
		r.Violations = []Violation{}
	}
	if r.Samples == nil {
		r.Samples = []string{}
	}
	bz, err := json.MarshalIndent(r, "", " ")
	if err != nil {
		return err
	}
	return os.WriteFile(path, bz, 0644)
}

// Distinct counts distinct keys of a set.
type Distinct map[string]struct{}

func (d Distinct) Add(k string) { d[k] = struct{}{} }
func (d Distinct) Sorted() []string {
	var s []string
	for k := range d {
		s = append(s, k)
	}
	sort.Strings(s)
	return s
}

// RunDriver pipes the operation lines to `rigodriver <component>` and returns its output lines.
func RunDriver(driver, component string, lines []string) ([]string, error) {
	// the rlp component is stateless (one independent case per line): large inputs are cut into chunks that are
	// piped to separate driver processes, four at a time (one process for 900k cases needed 13 GB)
	const chunk = 20000
	if component == "rlp" && len(lines) > chunk {
		n := (len(lines) + chunk - 1) / chunk
		outs := make([][]string, n)
		errs := make([]error, n)
		sem := make(chan struct{}, 4)
		done := make(chan int, n)
		for i := 0; i < n; i++ {
			go func(i int) {
				sem <- struct{}{}
				defer func() { <-sem; done <- i }()
				hi := (i + 1) * chunk
				if hi > len(lines) {
					hi = len(lines)
				}
				outs[i], errs[i] = runDriverOnce(driver, component, lines[i*chunk:hi])
				if errs[i] == nil && len(outs[i]) != hi-i*chunk {
					errs[i] = fmt.Errorf("rigodriver %s: chunk %d produced %d lines for %d inputs", component, i, len(outs[i]), hi-i*chunk)
				}
			}(i)
		}
		for i := 0; i < n; i++ {
			<-done
		}
		var all []string
		for i := 0; i < n; i++ {
			if errs[i] != nil {
				return nil, errs[i]
			}
			all = append(all, outs[i]...)
		}
		return all, nil
	}
	return runDriverOnce(driver, component, lines)
}

func runDriverOnce(driver, component string, lines []string) ([]string, error) {
	cmd := exec.Command(driver, component)
	cmd.Stdin = strings.NewReader(strings.Join(lines, "\n") + "\n")
	var out, errb bytes.Buffer
	cmd.Stdout = &out
	cmd.Stderr = &errb
	if err := cmd.Run(); err != nil {
		return nil, fmt.Errorf("rigodriver %s: %v: %s", component, err, errb.String())
	}
	res := strings.Split(strings.TrimRight(out.String(), "\n"), "\n")
	if len(res) == 1 && res[0] == "" {
		res = nil
	}
	return res, nil
}

// WorkDir creates a fresh scratch directory under base.
func WorkDir(base, name string) (string, error) {
	d := filepath.Join(base, fmt.Sprintf("%s-%d", name, os.Getpid()))
	_ = os.RemoveAll(d)
	return d, os.MkdirAll(d, 0755)
}

// Shrink greedily removes elements from ops while fails(ops) stays true.
func Shrink(ops []string, fails func([]string) bool, budget int) []string {
	cur := append([]string(nil), ops...)
	n := 2
	for len(cur) >= 2 && budget > 0 {
		chunk := (len(cur) + n - 1) / n
		reduced := false
		for start := 0; start < len(cur) && budget > 0; start += chunk {
			end := start + chunk
			if end > len(cur) {
				end = len(cur)
			}
			cand := append(append([]string(nil), cur[:start]...), cur[end:]...)
			budget--
			if len(cand) > 0 && fails(cand) {
				cur = cand
				if n > 2 {
					n--
				}
				reduced = true
				break
			}
		}
		if !reduced {
			if chunk == 1 {
				break
			}
			n *= 2
			if n > len(cur) {
				n = len(cur)
			}
		}
	}
	return cur
}

// CopyDirStable copies a data directory of a node that is still open. LevelDB compacts in the background even when
// the application is idle: files may appear or vanish while `cp -r` walks the tree, which makes cp fail or — worse —
// yields a copy that never existed on disk at any instant. The copy is therefore repeated until the source tree's
// listing (names, sizes, modification times) is the same before and after the copy.
func CopyDirStable(src, dst string) error {
	listing := func() string {
		var sb strings.Builder
		_ = filepath.Walk(src, func(p string, fi os.FileInfo, err error) error {
			if err != nil || fi == nil {
				return nil
			}
			if !fi.IsDir() {
				fmt.Fprintf(&sb, "%s %d %d\n", p, fi.Size(), fi.ModTime().UnixNano())
			}
			return nil
		})
		return sb.String()
	}
	var last error
	for try := 0; try < 40; try++ {
		_ = os.RemoveAll(dst)
		before := listing()
		out, err := exec.Command("cp", "-r", src, dst).CombinedOutput()
		after := listing()
		if err == nil && before == after {
			return nil
		}
		if err != nil {
			last = fmt.Errorf("cp: %v %s", err, out)
		} else {
			last = fmt.Errorf("source directory kept changing during the copy")
		}
		time.Sleep(time.Duration(20*(try+1)) * time.Millisecond)
	}
	return last
}
