// Package signerstream: C20 correspondence and double-sign monitor.
//
// Random sequences of vote / proposal signing requests (increasing, repeated, regressing and
// conflicting height/round/step, same content with another timestamp, other block ids, POL rounds
// and chain ids), reloads through crypto.LoadSFilePV and crashes before / after the state-file
// write are run on the REAL crypto.SFilePV with its key and state files in the scratch directory,
// on the Lean model (rigodriver signer) and through an independent double-sign detector written
// from the property statement.
//
// Crash emulation (there is no hook inside saveSigned):
//   - crashAfterSave  : the request runs to completion on the real signer, its result (signature
//     included) is thrown away unseen, the in-memory object is dropped and the signer is reloaded
//     from its files;
//   - crashBeforeSave : as above, but the state file is put back to its bytes from before the
//     request (the atomic rename never happened) before reloading.
package signerstream

import (
	"bytes"
	"encoding/hex"
	"encoding/json"
	"fmt"
	"os"
	"path/filepath"
	"strconv"
	"strings"
	"time"

	rcrypto "github.com/rigochain/rigo-go/types/crypto"
	tmcrypto "github.com/tendermint/tendermint/crypto"
	tmproto "github.com/tendermint/tendermint/proto/tendermint/types"
	tmtypes "github.com/tendermint/tendermint/types"

	"verifharness/internal/common"
	"verifharness/internal/rng"
)

// ---------------------------------------------------------------------------- messages

var baseTime = time.Unix(1700000000, 0).UTC()

func tsToTime(ts uint64) time.Time { return baseTime.Add(time.Duration(ts) * time.Millisecond) }
func timeToTs(t time.Time) string {
	d := t.Sub(baseTime)
	if d < 0 || d%time.Millisecond != 0 {
		return "odd:" + t.UTC().Format(time.RFC3339Nano)
	}
	return strconv.FormatInt(int64(d/time.Millisecond), 10)
}

func fill(b byte) []byte { return bytes.Repeat([]byte{b}, 32) }

// content id -> everything in the canonical message that is not type/height/round/timestamp.
// All ids give pairwise different canonical messages (for votes and for proposals).
func contentOf(c uint64) (chain string, bid tmproto.BlockID, pol int32) {
	chain, pol = "rigo-verif", -1
	switch c % 6 {
	case 0: // nil block
	case 1:
		bid = tmproto.BlockID{Hash: fill(0xA1), PartSetHeader: tmproto.PartSetHeader{Total: 1, Hash: fill(0xB1)}}
	case 2:
		bid = tmproto.BlockID{Hash: fill(0xA2), PartSetHeader: tmproto.PartSetHeader{Total: 1, Hash: fill(0xB2)}}
	case 3: // differs from 1 only in the part-set total
		bid = tmproto.BlockID{Hash: fill(0xA1), PartSetHeader: tmproto.PartSetHeader{Total: 2, Hash: fill(0xB1)}}
	case 4: // differs from 1 only in the chain id
		chain = "rigo-other"
		bid = tmproto.BlockID{Hash: fill(0xA1), PartSetHeader: tmproto.PartSetHeader{Total: 1, Hash: fill(0xB1)}}
	case 5: // differs from 1 only in the part-set hash
		bid = tmproto.BlockID{Hash: fill(0xA1), PartSetHeader: tmproto.PartSetHeader{Total: 1, Hash: fill(0xB5)}}
	}
	// ids >= 6: same block data, other chain-id suffix (keeps the map injective for any id)
	if c >= 6 {
		chain = fmt.Sprintf("%s-%d", chain, c/6)
	}
	return
}

type request struct {
	proposal bool
	h        int64
	r        int32
	vtype    string // prevote|precommit|unknown
	c, ts    uint64
}

func parseRequest(ws []string) (*request, bool) {
	rq := &request{}
	var hs, rs, cs, tss string
	switch {
	case len(ws) == 6 && ws[0] == "vote":
		hs, rs, rq.vtype, cs, tss = ws[1], ws[2], ws[3], ws[4], ws[5]
		if rq.vtype != "prevote" && rq.vtype != "precommit" && rq.vtype != "unknown" {
			return nil, false
		}
	case len(ws) == 5 && ws[0] == "proposal":
		rq.proposal = true
		hs, rs, cs, tss = ws[1], ws[2], ws[3], ws[4]
	default:
		return nil, false
	}
	h, e1 := strconv.ParseInt(hs, 10, 64)
	r, e2 := strconv.ParseInt(rs, 10, 32)
	c, e3 := strconv.ParseUint(cs, 10, 32)
	ts, e4 := strconv.ParseUint(tss, 10, 40)
	if e1 != nil || e2 != nil || e3 != nil || e4 != nil {
		return nil, false
	}
	rq.h, rq.r, rq.c, rq.ts = h, int32(r), c, ts
	return rq, true
}

func (rq *request) step() int8 {
	if rq.proposal {
		return 1
	}
	if rq.vtype == "prevote" {
		return 2
	}
	return 3
}

// vote / proposal with the given timestamp id
func (rq *request) vote(ts uint64) (string, *tmproto.Vote) {
	chain, bid, _ := contentOf(rq.c)
	t := tmproto.UnknownType
	switch rq.vtype {
	case "prevote":
		t = tmproto.PrevoteType
	case "precommit":
		t = tmproto.PrecommitType
	}
	return chain, &tmproto.Vote{Type: t, Height: rq.h, Round: rq.r, BlockID: bid, Timestamp: tsToTime(ts),
		ValidatorAddress: fill(0x11)[:20], ValidatorIndex: 3}
}

func (rq *request) prop(ts uint64) (string, *tmproto.Proposal) {
	chain, bid, pol := contentOf(rq.c)
	if rq.c%6 == 5 { // for proposals content 5 additionally moves the POL round
		pol = 0
	}
	return chain, &tmproto.Proposal{Type: tmproto.ProposalType, Height: rq.h, Round: rq.r, PolRound: pol,
		BlockID: bid, Timestamp: tsToTime(ts)}
}

// canonical sign bytes of the request with timestamp id ts ("" if the vote type is unknown:
// the real code panics before computing any)
func (rq *request) signBytes(ts uint64) []byte {
	if rq.proposal {
		chain, p := rq.prop(ts)
		return tmtypes.ProposalSignBytes(chain, p)
	}
	if rq.vtype == "unknown" {
		return nil
	}
	chain, v := rq.vote(ts)
	return tmtypes.VoteSignBytes(chain, v)
}

// ---------------------------------------------------------------------------- real signer

type env struct {
	dir     string
	keyPath string
	pass    []byte
	priv    tmcrypto.PrivKey
	pub     tmcrypto.PubKey
}

// one key per stream run (and per passphrase mode)
func newEnv(dir, name string, pass []byte) (e *env, err error) {
	defer func() {
		if x := recover(); x != nil {
			err = fmt.Errorf("key generation: %v", x)
		}
	}()
	e = &env{dir: dir, keyPath: filepath.Join(dir, name+"-key.json"), pass: pass}
	pv := rcrypto.GenSFilePV(e.keyPath, filepath.Join(dir, name+"-state-init.json"))
	pv.SaveWith(pass)
	e.priv = pv.Key.PrivKey
	e.pub = pv.Key.PubKey
	return e, nil
}

type fileState struct {
	Height    string `json:"height"`
	Round     int32  `json:"round"`
	Step      int8   `json:"step"`
	Signature []byte `json:"signature"`
	SignBytes string `json:"signbytes"`
}

// the durable record, read straight from the state file (not through LoadSFilePV)
func readStateFile(path string) (h int64, r int32, s int8, sb, sig []byte, err error) {
	bz, err := os.ReadFile(path)
	if err != nil {
		return
	}
	var fs fileState
	if err = json.Unmarshal(bz, &fs); err != nil {
		return
	}
	h, err = strconv.ParseInt(fs.Height, 10, 64)
	if err != nil {
		return
	}
	sb, err = hex.DecodeString(fs.SignBytes)
	return h, fs.Round, fs.Step, sb, fs.Signature, err
}

func flags(sb, sig []byte) string {
	f := ""
	if len(sb) > 0 {
		f += "b"
	} else {
		f += "-"
	}
	if len(sig) > 0 {
		f += "s"
	} else {
		f += "-"
	}
	return f
}

type reqRec struct {
	idx int
	sb  []byte
}

// what one operation released to the caller (input of the monitor)
type release struct {
	idx      int
	sig      []byte
	validFor []byte // sign bytes the signature verifies against (nil: none found)
	hrs      [3]int64
	modTs    string // validFor with the timestamp normalised ("same message up to timestamp")
	fileHRS  [3]int64
	fileSig  []byte
	fileErr  string
	injected bool // line was an `inject` (monitor forgets: hand-made file is outside the property)
}

type real struct {
	e         *env
	statePath string
	pv        *rcrypto.SFilePV
	n         int
	reqs      []reqRec
	// sign bytes -> (hrs, modTs) for everything requested in this history
	meta map[string]sbMeta
}

type sbMeta struct {
	hrs   [3]int64
	modTs string
}

func openReal(e *env, idx int) (r *real, err error) {
	defer func() {
		if x := recover(); x != nil {
			err = fmt.Errorf("open: %v", x)
		}
	}()
	sp := filepath.Join(e.dir, fmt.Sprintf("state-%d.json", idx))
	pv := rcrypto.NewSFilePV(e.priv, e.keyPath, sp)
	pv.LastSignState.Save() // the initial state file, as GenSFilePV + SaveWith writes it
	r = &real{e: e, statePath: sp, meta: map[string]sbMeta{}}
	r.pv = rcrypto.LoadSFilePV(e.keyPath, sp, e.pass)
	return r, nil
}

func (r *real) close() { _ = os.Remove(r.statePath) }

func (r *real) reload() { r.pv = nil; r.pv = rcrypto.LoadSFilePV(r.e.keyPath, r.statePath, r.e.pass) }

func (r *real) stateSuffix() string {
	l := r.pv.LastSignState
	mem := fmt.Sprintf("%d/%d/%d:%s", l.Height, l.Round, l.Step, flags(l.SignBytes, l.Signature))
	h, rr, s, sb, sig, err := readStateFile(r.statePath)
	disk := fmt.Sprintf("%d/%d/%d:%s", h, rr, s, flags(sb, sig))
	if err != nil {
		disk = "unreadable:" + err.Error()
	}
	return " mem=" + mem + " disk=" + disk
}

func classifyErr(msg string) string {
	switch {
	case strings.Contains(msg, "height regression"):
		return "height-regression"
	case strings.Contains(msg, "round regression"):
		return "round-regression"
	case strings.Contains(msg, "step regression"):
		return "step-regression"
	case strings.Contains(msg, "no SignBytes found"):
		return "no-signbytes"
	case strings.Contains(msg, "conflicting data"):
		return "conflict"
	}
	return "other:" + msg
}

func classifyPanic(msg string) string {
	switch {
	case strings.Contains(msg, "Unknown vote type"):
		return "unknown-vote-type"
	case strings.Contains(msg, "Signature is nil but SignBytes is not"):
		return "signature-nil"
	}
	return "other:" + msg
}

type callResult struct {
	kind  string // fresh|same|ts-same|err <k>|panic <k>
	sig   []byte
	after []byte // sign bytes of the message as handed back (timestamp possibly replaced)
	retTs string
}

// call SignVote / SignProposal on the real signer
func (r *real) call(rq *request) (cr callResult) {
	before, _ := os.ReadFile(r.statePath)
	defer func() {
		if x := recover(); x != nil {
			cr = callResult{kind: "panic " + classifyPanic(fmt.Sprint(x))}
		}
	}()
	var err error
	var sig, after []byte
	var ret time.Time
	if rq.proposal {
		chain, p := rq.prop(rq.ts)
		err = r.pv.SignProposal(chain, p)
		if err == nil {
			sig, ret = p.Signature, p.Timestamp
			after = tmtypes.ProposalSignBytes(chain, p)
		}
	} else {
		chain, v := rq.vote(rq.ts)
		err = r.pv.SignVote(chain, v)
		if err == nil {
			sig, ret = v.Signature, v.Timestamp
			after = tmtypes.VoteSignBytes(chain, v)
		}
	}
	if err != nil {
		return callResult{kind: "err " + classifyErr(err.Error())}
	}
	now, _ := os.ReadFile(r.statePath)
	cr = callResult{sig: sig, after: after, retTs: timeToTs(ret)}
	switch {
	case !bytes.Equal(before, now):
		cr.kind = "fresh"
	case !ret.Equal(tsToTime(rq.ts)):
		cr.kind = "ts-same ts=" + cr.retTs
	default:
		cr.kind = "same"
	}
	return cr
}

// which request's sign bytes does sig verify against (public-key verification)
func (r *real) verifiedAgainst(cr callResult) (string, []byte) {
	if len(cr.sig) == 0 {
		return "invalid", nil
	}
	var valid []byte
	if r.e.pub.VerifySignature(cr.after, cr.sig) {
		valid = cr.after
	} else { // not a signature of the message handed back: try everything requested so far
		for _, q := range r.reqs {
			if r.e.pub.VerifySignature(q.sb, cr.sig) {
				valid = q.sb
				break
			}
		}
	}
	if valid == nil {
		return "invalid", nil
	}
	for _, q := range r.reqs {
		if bytes.Equal(q.sb, valid) {
			return strconv.Itoa(q.idx), valid
		}
	}
	return "none", valid
}

func (r *real) note(rq *request) {
	sb := rq.signBytes(rq.ts)
	if sb == nil {
		return
	}
	r.reqs = append(r.reqs, reqRec{r.n, sb})
	r.meta[string(sb)] = sbMeta{[3]int64{rq.h, int64(rq.r), int64(rq.step())}, string(rq.signBytes(0))}
	// the same message with every timestamp already seen for this content is found through modTs
}

// apply one line on the real signer; rel != nil when a signature was released (or on inject)
func (r *real) apply(ws []string) (out string, rel *release) {
	defer func() { r.n++ }()
	defer func() {
		if x := recover(); x != nil {
			out = fmt.Sprintf("harness-panic %v", x)
		}
	}()
	switch ws[0] {
	case "reload":
		if len(ws) != 1 {
			return "bad-op", nil
		}
		r.reload()
		return "reloaded" + r.stateSuffix(), nil
	case "inject":
		return r.inject(ws[1:])
	case "crashBeforeSave", "crashAfterSave":
		rq, ok := parseRequest(ws[1:])
		if !ok {
			return "bad-op", nil
		}
		r.note(rq)
		before, _ := os.ReadFile(r.statePath)
		cr := r.call(rq)
		phase := "after"
		if ws[0] == "crashBeforeSave" {
			phase = "before"
			// the rename never happened: the old file is still there (plus a stray temp file)
			_ = os.WriteFile(r.statePath, before, 0600)
			_ = os.WriteFile(filepath.Join(filepath.Dir(r.statePath), "write-file-atomic-crashed"), []byte("{"), 0600)
		}
		r.reload()
		return "crashed " + phase + " " + cr.kind + r.stateSuffix(), nil
	default:
		rq, ok := parseRequest(ws)
		if !ok {
			return "bad-op", nil
		}
		r.note(rq)
		cr := r.call(rq)
		if strings.HasPrefix(cr.kind, "err") || strings.HasPrefix(cr.kind, "panic") {
			return cr.kind + r.stateSuffix(), nil
		}
		which, valid := r.verifiedAgainst(cr)
		rel = &release{idx: r.n, sig: cr.sig, validFor: valid}
		if valid != nil {
			if m, ok := r.meta[string(valid)]; ok {
				rel.hrs, rel.modTs = m.hrs, m.modTs
			} else { // the message handed back (stored timestamp): same HRS/content as the request
				rel.hrs = [3]int64{rq.h, int64(rq.r), int64(rq.step())}
				rel.modTs = string(rq.signBytes(0))
			}
		}
		h, rr, s, _, fsig, err := readStateFile(r.statePath)
		rel.fileHRS, rel.fileSig = [3]int64{h, int64(rr), int64(s)}, fsig
		if err != nil {
			rel.fileErr = err.Error()
		}
		return "ok " + cr.kind + " sig=" + which + r.stateSuffix(), rel
	}
}

// inject <h> <r> <s> <none|content:ts> <sig|nosig>: hand-made state file, written through the real
// Save, then a real reload.
func (r *real) inject(ws []string) (string, *release) {
	if len(ws) != 5 {
		return "bad-op", nil
	}
	h, e1 := strconv.ParseInt(ws[0], 10, 64)
	rr, e2 := strconv.ParseInt(ws[1], 10, 32)
	s, e3 := strconv.ParseInt(ws[2], 10, 8)
	if e1 != nil || e2 != nil || e3 != nil {
		return "bad-op", nil
	}
	var sb, sig []byte
	if ws[3] != "none" {
		parts := strings.Split(ws[3], ":")
		if len(parts) != 2 || s < 1 || s > 3 {
			return "bad-op", nil
		}
		c, e4 := strconv.ParseUint(parts[0], 10, 32)
		ts, e5 := strconv.ParseUint(parts[1], 10, 40)
		if e4 != nil || e5 != nil {
			return "bad-op", nil
		}
		rq := &request{proposal: s == 1, h: h, r: int32(rr), c: c, ts: ts, vtype: map[int64]string{1: "", 2: "prevote", 3: "precommit"}[s]}
		sb = rq.signBytes(ts)
		r.reqs = append(r.reqs, reqRec{r.n, sb})
		r.meta[string(sb)] = sbMeta{[3]int64{h, rr, s}, string(rq.signBytes(0))}
	}
	switch ws[4] {
	case "nosig":
	case "sig":
		if sb == nil {
			return "bad-op", nil
		}
		var err error
		if sig, err = r.e.priv.Sign(sb); err != nil {
			return "harness-error " + err.Error(), nil
		}
	default:
		return "bad-op", nil
	}
	l := &r.pv.LastSignState
	l.Height, l.Round, l.Step, l.SignBytes, l.Signature = h, int32(rr), int8(s), sb, sig
	l.Save()
	r.reload()
	return "injected" + r.stateSuffix(), &release{injected: true}
}

// ---------------------------------------------------------------------------- monitor

// double-sign detector, written from the property statement; it sees only what was released.
type monitor struct {
	signed map[[3]int64]map[string]string // HRS -> message-modulo-timestamp -> hex(signature)
	max    *[3]int64
	seen   map[string]bool
}

func newMonitor() *monitor {
	return &monitor{signed: map[[3]int64]map[string]string{}, seen: map[string]bool{}}
}

func lessHRS(a, b [3]int64) bool {
	for i := 0; i < 3; i++ {
		if a[i] != b[i] {
			return a[i] < b[i]
		}
	}
	return false
}

// observe returns (kind, detail) of a violation or "".
func (m *monitor) observe(rel *release) (string, string) {
	if rel.injected {
		*m = *newMonitor()
		return "", ""
	}
	if rel.validFor == nil {
		return "invalid-signature", fmt.Sprintf("line %d: a signature was returned that verifies against no requested message", rel.idx)
	}
	sigHex := hex.EncodeToString(rel.sig)
	kind, detail := "", ""
	set := m.signed[rel.hrs]
	if set == nil {
		set = map[string]string{}
		m.signed[rel.hrs] = set
	}
	for other := range set {
		if other != rel.modTs {
			kind, detail = "double-sign", fmt.Sprintf("line %d: second signature at height/round/step %v for a different message (differs in more than the timestamp)", rel.idx, rel.hrs)
		}
	}
	if old, ok := set[rel.modTs]; ok && old != sigHex && kind == "" {
		kind, detail = "resign-not-original", fmt.Sprintf("line %d: the same message up to timestamp was signed twice at %v with different signatures", rel.idx, rel.hrs)
	}
	if m.max != nil && lessHRS(rel.hrs, *m.max) && kind == "" {
		kind, detail = "regression", fmt.Sprintf("line %d: signature released for height/round/step %v after one for %v", rel.idx, rel.hrs, *m.max)
	}
	if kind == "" {
		if rel.fileErr != "" {
			kind, detail = "not-persisted", fmt.Sprintf("line %d: state file unreadable when the signature was released: %s", rel.idx, rel.fileErr)
		} else if lessHRS(rel.fileHRS, rel.hrs) || (rel.fileHRS == rel.hrs && !bytes.Equal(rel.fileSig, rel.sig)) {
			kind, detail = "not-persisted", fmt.Sprintf("line %d: signature for %v released while the state file holds %v (signature on file equal: %v)",
				rel.idx, rel.hrs, rel.fileHRS, bytes.Equal(rel.fileSig, rel.sig))
		}
	}
	if _, ok := set[rel.modTs]; !ok {
		set[rel.modTs] = sigHex
	}
	if m.max == nil || lessHRS(*m.max, rel.hrs) {
		x := rel.hrs
		m.max = &x
	}
	m.seen[sigHex] = true
	return kind, detail
}

// ---------------------------------------------------------------------------- generator

type genState struct {
	h    int64
	r    int32
	s    int8 // 1..3 of the last "frontier" request
	c    uint64
	ts   uint64
	prop bool
	any  bool
}

func (g *genState) line(h int64, r int32, s int8, c, ts uint64) string {
	if s == 1 {
		return fmt.Sprintf("proposal %d %d %d %d", h, r, c, ts)
	}
	t := "prevote"
	if s == 3 {
		t = "precommit"
	}
	return fmt.Sprintf("vote %d %d %s %d %d", h, r, t, c, ts)
}

func genRequest(r *rng.R, g *genState) string {
	if !g.any {
		g.any = true
		g.h, g.r, g.s = int64(r.Range(0, 3)), int32(r.Range(0, 1)), int8(r.Range(1, 3))
		if r.Chance(4) {
			g.h = int64(1)<<62 - int64(r.Intn(2))
		}
		g.c, g.ts = uint64(r.Intn(6)), uint64(r.Range(0, 5000))
		return g.line(g.h, g.r, g.s, g.c, g.ts)
	}
	newTs := func() uint64 { return g.ts + uint64(r.Range(1, 900)) }
	otherC := func() uint64 { return (g.c + uint64(r.Range(1, 5))) % 6 }
	switch r.Pick(34, 14, 16, 14, 14, 4, 4) {
	case 0: // advance: next step / round / height
		switch r.Pick(55, 22, 23) {
		case 0:
			if g.s < 3 {
				g.s++
			} else {
				g.r, g.s = g.r+1, int8(r.Range(1, 2))
			}
		case 1:
			g.r, g.s = g.r+int32(r.Range(1, 2)), int8(r.Range(1, 3))
		case 2:
			g.h, g.r, g.s = g.h+int64(r.Range(1, 2)), int32(r.Intn(2)), int8(r.Range(1, 3))
		}
		if r.Chance(60) {
			g.c = uint64(r.Intn(6))
		}
		g.ts = newTs()
		return g.line(g.h, g.r, g.s, g.c, g.ts)
	case 1: // exact repeat
		return g.line(g.h, g.r, g.s, g.c, g.ts)
	case 2: // same content, other timestamp (earlier or later)
		ts := newTs()
		if r.Chance(30) && g.ts > 0 {
			ts = uint64(r.Intn(int(g.ts)))
		}
		return g.line(g.h, g.r, g.s, g.c, ts)
	case 3: // conflicting content at the same HRS
		ts := g.ts
		if r.Chance(50) {
			ts = newTs()
		}
		return g.line(g.h, g.r, g.s, otherC(), ts)
	case 4: // regression in step / round / height, same or other content
		h, rr, s := g.h, g.r, g.s
		switch r.Pick(40, 30, 30) {
		case 0:
			if s > 1 {
				s = int8(r.Range(1, int(s)-1))
			} else {
				rr--
			}
		case 1:
			rr -= int32(r.Range(1, 2))
			s = int8(r.Range(1, 3))
		case 2:
			h -= int64(r.Range(1, 3))
			rr, s = int32(r.Range(0, 3)), int8(r.Range(1, 3))
		}
		c := g.c
		if r.Chance(50) {
			c = otherC()
		}
		return g.line(h, rr, s, c, newTs())
	case 5: // a vote whose type is neither prevote nor precommit
		return fmt.Sprintf("vote %d %d unknown %d %d", g.h+int64(r.Range(0, 1)), g.r, g.c, newTs())
	default: // far jump / extreme values
		switch r.Intn(3) {
		case 0:
			g.h, g.r, g.s = g.h+int64(r.Range(10, 1000)), 0, int8(r.Range(1, 3))
		case 1:
			g.r, g.s = 2147483647-int32(r.Intn(2)), int8(r.Range(1, 3))
		default:
			return g.line(-int64(r.Range(1, 5)), int32(-r.Intn(2)), int8(r.Range(1, 3)), g.c, newTs())
		}
		g.c, g.ts = uint64(r.Intn(6)), newTs()
		return g.line(g.h, g.r, g.s, g.c, g.ts)
	}
}

func genHistory(r *rng.R, maxOps int, reloads bool) []string {
	n := r.Range(4, maxOps)
	g := &genState{}
	var ops []string
	if r.Chance(8) { // defensive CheckHRS branches from a hand-made state file (first line only)
		h, rr, s := r.Range(0, 3), r.Range(0, 1), r.Range(0, 3)
		sb, sg := "none", "nosig"
		if s >= 1 && r.Chance(70) {
			sb = fmt.Sprintf("%d:%d", r.Intn(6), r.Range(0, 5000))
			if r.Chance(50) {
				sg = "sig"
			}
		}
		ops = append(ops, fmt.Sprintf("inject %d %d %d %s %s", h, rr, s, sb, sg))
		if s >= 1 {
			g.any, g.h, g.r, g.s, g.c, g.ts = true, int64(h), int32(rr), int8(s), uint64(r.Intn(6)), uint64(r.Range(0, 5000))
			if sb != "none" && r.Chance(70) {
				fmt.Sscanf(sb, "%d:%d", &g.c, &g.ts)
			}
		}
	}
	pReload, pCrash := 12, 12
	if !reloads {
		pReload, pCrash = 3, 3
	}
	for len(ops) < n {
		x := r.Intn(100)
		switch {
		case x < pReload:
			ops = append(ops, "reload")
		case x < pReload+pCrash:
			// the generator's frontier advances as if the request had been made: later lines then
			// repeat / conflict with a request that died before or after its save
			rq := genRequest(r, g)
			if r.Bool() {
				ops = append(ops, "crashBeforeSave "+rq)
			} else {
				ops = append(ops, "crashAfterSave "+rq)
			}
		default:
			ops = append(ops, genRequest(r, g))
		}
	}
	return ops
}

// ---------------------------------------------------------------------------- running

type histResult struct {
	outs []string
	kind string // first monitor violation kind ("" none)
	det  string
	at   int
}

func runReal(e *env, idx int, ops []string) (hr histResult, err error) {
	r, err := openReal(e, idx)
	if err != nil {
		return hr, err
	}
	defer r.close()
	m := newMonitor()
	hr.at = -1
	for i, op := range ops {
		out, rel := r.apply(strings.Fields(op))
		hr.outs = append(hr.outs, out)
		if rel != nil {
			if k, d := m.observe(rel); k != "" && hr.kind == "" {
				hr.kind, hr.det, hr.at = k, d, i
			}
		}
		if strings.HasPrefix(out, "harness-panic") && hr.kind == "" {
			hr.kind, hr.det, hr.at = "harness-panic", out, i
		}
	}
	return hr, nil
}

func outcomeKey(op, out string) string {
	o := strings.Fields(out)
	k := strings.Fields(op)[0]
	if k == "crashBeforeSave" || k == "crashAfterSave" {
		k += "-" + strings.Fields(op)[1]
	}
	switch o[0] {
	case "ok":
		return k + "/ok-" + o[1]
	case "err", "panic":
		return k + "/" + o[0] + "-" + o[1]
	case "crashed":
		if o[2] == "err" || o[2] == "panic" {
			return k + "/" + o[2] + "-" + o[3]
		}
		return k + "/" + o[2]
	}
	return k + "/" + o[0]
}

// Run is the stream entry point.
func Run(seed uint64, tier, work, driver string, replay []string) *common.Result {
	res := common.NewResult("signer", seed, tier)
	res.Rule = "random vote/proposal signing requests (advancing, exact repeats, same content with another timestamp, " +
		"conflicting content, step/round/height regressions, unknown vote type, extreme values) on the real crypto.SFilePV, " +
		"with LoadSFilePV reloads and crashes before/after the state-file write between arbitrary requests; " +
		"a case is (operation kind, outcome); a history is non-trivial when it contains a re-sent signature " +
		"(same / ts-same) after a reload or crash and a refused request (conflict or regression); " +
		"distinct_nontrivial counts distinct non-trivial histories"
	r := rng.New(seed)
	nh, maxOps, nPass := 2000, 40, 2
	if tier == "thorough" {
		nh, maxOps, nPass = 40000, 40, 40
	}
	plain, err := newEnv(work, "plain", nil)
	if err != nil {
		res.Error = err.Error()
		return res
	}
	var hist [][]string
	var envs []*env
	if replay != nil {
		hist, envs = [][]string{replay}, []*env{plain}
	} else {
		// a few histories with a passphrase-protected key file (each LoadSFilePV then costs a
		// 600k-iteration PBKDF2), the bulk with the plaintext key file format
		locked, err := newEnv(work, "locked", []byte("verif-passphrase"))
		if err != nil {
			res.Error = err.Error()
			return res
		}
		for i := 0; i < nh; i++ {
			if i < nPass {
				hist = append(hist, genHistory(r.Fork(), 14, false))
				envs = append(envs, locked)
			} else {
				hist = append(hist, genHistory(r.Fork(), maxOps, true))
				envs = append(envs, plain)
			}
		}
		res.Notes = append(res.Notes, fmt.Sprintf("%d histories ran with a passphrase-encrypted key file, the rest with the plaintext key file", nPass))
	}
	distinct := common.Distinct{}
	var all []string
	var realOuts [][]string
	kindsSeen := map[string]bool{}
	for i, ops := range hist {
		hr, err := runReal(envs[i], i, ops)
		if err != nil {
			res.Error = err.Error()
			return res
		}
		realOuts = append(realOuts, hr.outs)
		all = append(all, "reset")
		all = append(all, ops...)
		res.Histories++
		resent, refused, restarted := false, false, false
		for j, op := range ops {
			res.Evaluations++
			res.Count(outcomeKey(op, hr.outs[j]))
			k := strings.Fields(op)[0]
			if k == "reload" || strings.HasPrefix(k, "crash") {
				restarted = true
			}
			if restarted && (strings.HasPrefix(hr.outs[j], "ok same") || strings.HasPrefix(hr.outs[j], "ok ts-same")) {
				resent = true
			}
			if strings.HasPrefix(hr.outs[j], "err conflict") || strings.Contains(hr.outs[j], "-regression") {
				refused = true
			}
		}
		if resent && refused {
			distinct.Add(strings.Join(ops, ";"))
		}
		if hr.kind != "" && !kindsSeen[hr.kind] {
			kindsSeen[hr.kind] = true
			kind := hr.kind
			fails := func(c []string) bool {
				x, err := runReal(envs[i], 1<<30, c)
				return err == nil && x.kind == kind
			}
			small := common.Shrink(ops[:hr.at+1], fails, 300)
			res.Violations = append(res.Violations, common.Violation{Property: "C20", Kind: hr.kind,
				Detail: fmt.Sprintf("history %d: %s", i, hr.det), Ops: small})
		}
		if i >= 2 && i < 5 && replay == nil || replay != nil {
			res.Samples = append(res.Samples, strings.Join(ops, "; ")+"  =>  "+strings.Join(hr.outs, "; "))
		}
	}
	res.DistinctNontrivial = len(distinct)

	// the Lean model on the same lines
	modelOut, err := common.RunDriver(driver, "signer", all)
	if err != nil {
		res.Error = err.Error()
		return res
	}
	if len(modelOut) != len(all) {
		res.Error = fmt.Sprintf("model printed %d lines for %d operations", len(modelOut), len(all))
		return res
	}
	pos := 0
	for i, ops := range hist {
		pos++ // "reset"
		for j, op := range ops {
			mo := modelOut[pos+j]
			if mo != realOuts[i][j] {
				e := envs[i]
				fails := func(c []string) bool {
					x, err := runReal(e, 1<<30, c)
					if err != nil {
						return false
					}
					mo, err := common.RunDriver(driver, "signer", c)
					if err != nil || len(mo) != len(x.outs) {
						return false
					}
					for k := range mo {
						if mo[k] != x.outs[k] {
							return true
						}
					}
					return false
				}
				small := common.Shrink(ops[:j+1], fails, 200)
				res.Disagreements = append(res.Disagreements, common.Disagreement{History: i, Index: j, Op: op,
					Impl: realOuts[i][j], Model: mo, Ops: small})
				break
			}
		}
		pos += len(ops)
		if len(res.Disagreements) >= 5 {
			break
		}
	}
	return res
}
