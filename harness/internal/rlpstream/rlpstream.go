// Package rlpstream: stub, replaced by the component's correspondence stream.
package rlpstream

import "verifharness/internal/common"

// Run is the stream entry point (seed, tier quick|thorough, scratch dir, rigodriver path, optional replay lines).
func Run(seed uint64, tier, work, driver string, replay []string) *common.Result {
	res := common.NewResult("rlp", seed, tier)
	res.Error = "stream not implemented"
	return res
}
