// Package rlpstream: C03 correspondence and monitor.
//
// Correspondence: random and boundary transactions of all eight types are encoded by the REAL code
// (ctrlertypes.PreImageToSignTrxRLP, rlp.EncodeToBytes(tx)) and by the Lean model (rigodriver rlp);
// the bytes must be identical.
//
// Monitor (written from the property statement, independent of the Lean model): every base
// transaction is signed with a real secp256k1 key; ctrlertypes.VerifyTrxRLP must accept the
// original and must reject every mutation of a signed field, of the claimed sender, of the chain id
// and of the signature bytes (in memory and again after a protobuf Encode/Decode round trip, the
// path DeliverTx takes); the signed bytes of the mutant must differ from the original's.
//
// Line protocol (one case per line, see lean/RigoDriver/Rlp.lean):
//
//	pre <chainHex> <tx>                                   -> hex pre-image
//	enc <chainHex> <tx>                                   -> hex rlp (signature included)
//	mon <kind> <keyHex> <sigmut> / <chainHex> <tx> / <chainHex> <tx>
//	                                                      -> pre=<same|diff> fields=<same|diff> chain=<same|diff>
//	<tx> = version time nonce from to amount gas gasPrice type sig payload...
package rlpstream

import (
	"bytes"
	"encoding/hex"
	"fmt"
	"math/big"
	"strconv"
	"strings"

	"github.com/ethereum/go-ethereum/rlp"
	"github.com/holiman/uint256"
	ctrlertypes "github.com/rigochain/rigo-go/ctrlers/types"
	"github.com/rigochain/rigo-go/types/crypto"

	"verifharness/internal/common"
	"verifharness/internal/rng"
)

const sepStr = ") Signed Message:\n"

// ---------------------------------------------------------------------------------------------
// transaction description (what a line carries)

type payload struct {
	kind                    string // none unstaking voting contract setdoc withdraw proposal
	a, b                    []byte // txhash | data | name,url | message
	choice                  int32
	start, period, applying int64
	optType                 int32
	opts                    [][]byte
	req                     *uint256.Int
}

type spec struct {
	chain    []byte
	ver      uint32
	time     int64
	nonce    uint64
	from, to []byte
	amt, gp  *uint256.Int
	gas      uint64
	typ      int32
	sig      []byte
	pl       payload
}

func hx(b []byte) string {
	if len(b) == 0 {
		return "-"
	}
	return hex.EncodeToString(b)
}

func unhx(s string) ([]byte, error) {
	if s == "-" {
		return []byte{}, nil
	}
	return hex.DecodeString(s)
}

func (p *payload) tokens() []string {
	switch p.kind {
	case "none":
		return []string{"none"}
	case "unstaking":
		return []string{"unstaking", hx(p.a)}
	case "voting":
		return []string{"voting", hx(p.a), strconv.FormatInt(int64(p.choice), 10)}
	case "contract":
		return []string{"contract", hx(p.a)}
	case "setdoc":
		return []string{"setdoc", hx(p.a), hx(p.b)}
	case "withdraw":
		return []string{"withdraw", p.req.Dec()}
	case "proposal":
		t := []string{"proposal", hx(p.a), strconv.FormatInt(p.start, 10), strconv.FormatInt(p.period, 10),
			strconv.FormatInt(p.applying, 10), strconv.FormatInt(int64(p.optType), 10), strconv.Itoa(len(p.opts))}
		for _, o := range p.opts {
			t = append(t, hx(o))
		}
		return t
	}
	return []string{"?"}
}

// tokens of <chainHex> <tx>
func (s *spec) tokens() []string {
	t := []string{hx(s.chain), strconv.FormatUint(uint64(s.ver), 10), strconv.FormatInt(s.time, 10),
		strconv.FormatUint(s.nonce, 10), hx(s.from), hx(s.to), s.amt.Dec(), strconv.FormatUint(s.gas, 10),
		s.gp.Dec(), strconv.FormatInt(int64(s.typ), 10), hx(s.sig)}
	return append(t, s.pl.tokens()...)
}

// signedTokens: the canonical text of every signed field (everything but chain and sig).
func (s *spec) signedTokens() string {
	t := s.tokens()
	return strings.Join(append(append([]string{}, t[1:10]...), t[11:]...), " ")
}

func (s *spec) clone() *spec {
	c := *s
	c.chain = append([]byte{}, s.chain...)
	c.from = append([]byte{}, s.from...)
	c.to = append([]byte{}, s.to...)
	c.sig = append([]byte{}, s.sig...)
	c.amt = s.amt.Clone()
	c.gp = s.gp.Clone()
	c.pl.a = append([]byte{}, s.pl.a...)
	c.pl.b = append([]byte{}, s.pl.b...)
	if s.pl.req != nil {
		c.pl.req = s.pl.req.Clone()
	}
	c.pl.opts = nil
	for _, o := range s.pl.opts {
		c.pl.opts = append(c.pl.opts, append([]byte{}, o...))
	}
	return &c
}

func parsePayload(t []string) (payload, error) {
	bad := fmt.Errorf("bad payload %v", t)
	if len(t) == 0 {
		return payload{}, bad
	}
	p := payload{kind: t[0]}
	var err error
	i32 := func(s string) int32 {
		n, e := strconv.ParseInt(s, 10, 32)
		if e != nil {
			err = e
		}
		return int32(n)
	}
	i64 := func(s string) int64 {
		n, e := strconv.ParseInt(s, 10, 64)
		if e != nil {
			err = e
		}
		return n
	}
	h := func(s string) []byte {
		b, e := unhx(s)
		if e != nil {
			err = e
		}
		return b
	}
	switch {
	case t[0] == "none" && len(t) == 1:
	case t[0] == "unstaking" && len(t) == 2, t[0] == "contract" && len(t) == 2:
		p.a = h(t[1])
	case t[0] == "voting" && len(t) == 3:
		p.a, p.choice = h(t[1]), i32(t[2])
	case t[0] == "setdoc" && len(t) == 3:
		p.a, p.b = h(t[1]), h(t[2])
	case t[0] == "withdraw" && len(t) == 2:
		p.req, err = uint256.FromDecimal(t[1])
	case t[0] == "proposal" && len(t) >= 7:
		p.a, p.start, p.period, p.applying, p.optType = h(t[1]), i64(t[2]), i64(t[3]), i64(t[4]), i32(t[5])
		k, e := strconv.Atoi(t[6])
		if e != nil || len(t) != 7+k {
			return p, bad
		}
		for _, o := range t[7:] {
			p.opts = append(p.opts, h(o))
		}
	default:
		return p, bad
	}
	return p, err
}

func parseSpec(t []string) (*spec, error) {
	if len(t) < 12 {
		return nil, fmt.Errorf("short tx %v", t)
	}
	s := &spec{}
	var err error
	keep := func(e error) {
		if e != nil && err == nil {
			err = e
		}
	}
	var e error
	s.chain, e = unhx(t[0])
	keep(e)
	v, e := strconv.ParseUint(t[1], 10, 32)
	keep(e)
	s.ver = uint32(v)
	s.time, e = strconv.ParseInt(t[2], 10, 64)
	keep(e)
	s.nonce, e = strconv.ParseUint(t[3], 10, 64)
	keep(e)
	s.from, e = unhx(t[4])
	keep(e)
	s.to, e = unhx(t[5])
	keep(e)
	s.amt, e = uint256.FromDecimal(t[6])
	keep(e)
	s.gas, e = strconv.ParseUint(t[7], 10, 64)
	keep(e)
	s.gp, e = uint256.FromDecimal(t[8])
	keep(e)
	ty, e := strconv.ParseInt(t[9], 10, 32)
	keep(e)
	s.typ = int32(ty)
	s.sig, e = unhx(t[10])
	keep(e)
	s.pl, e = parsePayload(t[11:])
	keep(e)
	return s, err
}

// build the real transaction object.
func (s *spec) build() *ctrlertypes.Trx {
	tx := &ctrlertypes.Trx{Version: s.ver, Time: s.time, Nonce: s.nonce, From: append([]byte{}, s.from...),
		To: append([]byte{}, s.to...), Amount: s.amt.Clone(), Gas: s.gas, GasPrice: s.gp.Clone(), Type: s.typ}
	if len(s.sig) > 0 {
		tx.Sig = append([]byte{}, s.sig...)
	}
	p := &s.pl
	switch p.kind {
	case "none":
		// fromProto leaves Payload nil for transfer/staking; clients build the empty structs. Both occur.
		if s.nonce%2 == 1 && s.typ == ctrlertypes.TRX_TRANSFER {
			tx.Payload = &ctrlertypes.TrxPayloadAssetTransfer{}
		} else if s.nonce%2 == 1 && s.typ == ctrlertypes.TRX_STAKING {
			tx.Payload = &ctrlertypes.TrxPayloadStaking{}
		}
	case "unstaking":
		tx.Payload = &ctrlertypes.TrxPayloadUnstaking{TxHash: append([]byte{}, p.a...)}
	case "voting":
		tx.Payload = &ctrlertypes.TrxPayloadVoting{TxHash: append([]byte{}, p.a...), Choice: p.choice}
	case "contract":
		tx.Payload = &ctrlertypes.TrxPayloadContract{Data: append([]byte{}, p.a...)}
	case "setdoc":
		tx.Payload = &ctrlertypes.TrxPayloadSetDoc{Name: string(p.a), URL: string(p.b)}
	case "withdraw":
		tx.Payload = &ctrlertypes.TrxPayloadWithdraw{ReqAmt: p.req.Clone()}
	case "proposal":
		var opts [][]byte
		for _, o := range p.opts {
			opts = append(opts, append([]byte{}, o...))
		}
		tx.Payload = &ctrlertypes.TrxPayloadProposal{Message: string(p.a), StartVotingHeight: p.start,
			VotingPeriodBlocks: p.period, ApplyingHeight: p.applying, OptType: p.optType, Options: opts}
	}
	return tx
}

// ---------------------------------------------------------------------------------------------
// real code

func realPre(s *spec) (out []byte, err error) {
	defer func() {
		if e := recover(); e != nil {
			err = fmt.Errorf("panic %v", e)
		}
	}()
	tx := s.build()
	sigBefore := append([]byte{}, tx.Sig...)
	bz, xerr := ctrlertypes.PreImageToSignTrxRLP(tx, string(s.chain))
	if xerr != nil {
		return nil, xerr
	}
	if !bytes.Equal(sigBefore, tx.Sig) {
		return nil, fmt.Errorf("PreImageToSignTrxRLP did not restore tx.Sig")
	}
	return bz, nil
}

func realEnc(s *spec) (out []byte, err error) {
	defer func() {
		if e := recover(); e != nil {
			err = fmt.Errorf("panic %v", e)
		}
	}()
	return rlp.EncodeToBytes(s.build())
}

// realVerify: VerifyTrxRLP on the in-memory object and on its Encode/Decode round trip.
// mem/wire: "accept", "reject", wire also "unencodable" / "undecodable".
func realVerify(s *spec, withWire bool) (mem, wire string) {
	defer func() {
		if e := recover(); e != nil {
			if mem == "" {
				mem = fmt.Sprintf("panic %v", e)
			} else {
				wire = fmt.Sprintf("panic %v", e)
			}
		}
	}()
	tx := s.build()
	if _, _, xerr := ctrlertypes.VerifyTrxRLP(tx, string(s.chain)); xerr == nil {
		mem = "accept"
	} else {
		mem = "reject"
	}
	if !withWire {
		return mem, "-"
	}
	bz, xerr := tx.Encode()
	if xerr != nil {
		return mem, "unencodable"
	}
	tx2 := &ctrlertypes.Trx{}
	if xerr := tx2.Decode(bz); xerr != nil {
		return mem, "undecodable"
	}
	if _, _, xerr := ctrlertypes.VerifyTrxRLP(tx2, string(s.chain)); xerr == nil {
		return mem, "accept"
	}
	return mem, "reject"
}

var curveN, _ = new(big.Int).SetString("FFFFFFFFFFFFFFFFFFFFFFFFFFFFFFFEBAAEDCE6AF48A03BBFD25E8CD0364141", 16)

func keyAddr(key []byte) ([]byte, error) {
	prv, err := crypto.ImportPrvKey(key)
	if err != nil {
		return nil, err
	}
	return crypto.Pub2Addr(&prv.PublicKey), nil
}

func signWith(key []byte, s *spec) ([]byte, error) {
	prv, err := crypto.ImportPrvKey(key)
	if err != nil {
		return nil, err
	}
	pre, err := realPre(s)
	if err != nil {
		return nil, err
	}
	return crypto.Sign(pre, prv)
}

// applySigMut derives the signature bytes the mutant carries.
func applySigMut(sig []byte, sigmut string, b *spec) ([]byte, error) {
	out := append([]byte{}, sig...)
	switch {
	case sigmut == "none":
	case strings.HasPrefix(sigmut, "flip:"):
		i, err := strconv.Atoi(sigmut[5:])
		if err != nil || i < 0 || i >= len(out)*8 {
			return nil, fmt.Errorf("bad sigmut %s", sigmut)
		}
		out[i/8] ^= 1 << uint(i%8)
	case sigmut == "twin": // (r, n-s, v^1): the other signature of the same message by the same key
		if len(out) != 65 {
			return nil, fmt.Errorf("twin needs 65 bytes")
		}
		sv := new(big.Int).SetBytes(out[32:64])
		sv.Sub(curveN, sv)
		sv.FillBytes(out[32:64])
		out[64] ^= 1
	case sigmut == "zero":
		out = make([]byte, 65)
	case sigmut == "trunc":
		out = out[:64]
	case sigmut == "ext":
		out = append(out, 0)
	case sigmut == "empty":
		out = nil
	case strings.HasPrefix(sigmut, "other:"): // a valid signature over the mutant's own pre-image by another key
		k, err := hex.DecodeString(sigmut[6:])
		if err != nil {
			return nil, err
		}
		return signWith(k, b)
	default:
		return nil, fmt.Errorf("bad sigmut %s", sigmut)
	}
	return out, nil
}

type monOut struct {
	line          string // what the Lean driver must print
	orig          string // verdict on the original (must be accept)
	mem, wire     string
	preSame       bool
	fieldsSame    bool
	chainSame     bool
	excludedChain bool
	err           string
}

func containsSep(c []byte) bool { return bytes.Contains(c, []byte(sepStr)) }

func sd(b bool) string {
	if b {
		return "same"
	}
	return "diff"
}

// runMon evaluates one `mon` line on the real code.
func runMon(ws []string) monOut {
	var o monOut
	parts := splitSlash(ws[1:])
	if len(parts) != 3 || len(parts[0]) != 3 {
		o.err = "bad mon line"
		return o
	}
	key, err := hex.DecodeString(parts[0][1])
	if err != nil {
		o.err = err.Error()
		return o
	}
	sigmut := parts[0][2]
	a, err := parseSpec(parts[1])
	if err != nil {
		o.err = err.Error()
		return o
	}
	b, err := parseSpec(parts[2])
	if err != nil {
		o.err = err.Error()
		return o
	}
	a.sig, b.sig = nil, nil
	sig, err := signWith(key, a)
	if err != nil {
		o.err = err.Error()
		return o
	}
	a.sig = sig
	o.orig, _ = realVerify(a, false)
	b.sig, err = applySigMut(sig, sigmut, b)
	if err != nil {
		o.err = err.Error()
		return o
	}
	o.mem, o.wire = realVerify(b, true)
	pa, err1 := realPre(a)
	pb, err2 := realPre(b)
	if err1 != nil || err2 != nil {
		o.err = fmt.Sprintf("pre-image failed: %v %v", err1, err2)
		return o
	}
	o.preSame = bytes.Equal(pa, pb)
	o.fieldsSame = a.signedTokens() == b.signedTokens()
	o.chainSame = bytes.Equal(a.chain, b.chain)
	o.excludedChain = containsSep(a.chain) || containsSep(b.chain)
	o.line = fmt.Sprintf("pre=%s fields=%s chain=%s", sd(o.preSame), sd(o.fieldsSame), sd(o.chainSame))
	return o
}

func splitSlash(ws []string) [][]string {
	out := [][]string{{}}
	for _, w := range ws {
		if w == "/" {
			out = append(out, []string{})
		} else {
			out[len(out)-1] = append(out[len(out)-1], w)
		}
	}
	return out
}

// ---------------------------------------------------------------------------------------------
// generators

func pow2(k uint) *uint256.Int { return new(uint256.Int).Lsh(uint256.NewInt(1), k) }
func pow2m1(k uint) *uint256.Int {
	if k == 256 {
		return new(uint256.Int).Not(uint256.NewInt(0))
	}
	return new(uint256.Int).Sub(pow2(k), uint256.NewInt(1))
}

func genU64(r *rng.R) uint64 {
	pool := []uint64{0, 1, 127, 128, 255, 256, 65535, 65536, 1<<32 - 1, 1 << 32, 1<<63 - 1, 1 << 63, 1<<64 - 1, 55, 56}
	switch r.Pick(5, 2, 2) {
	case 0:
		return pool[r.Intn(len(pool))]
	case 1:
		return r.U64() >> uint(r.Intn(64))
	}
	return r.U64()
}

func genI64(r *rng.R) int64 {
	pool := []int64{0, 1, -1, 127, 128, 255, 256, -128, -256, 1<<32 - 1, 1 << 32, 1<<63 - 1, -1 << 63, -1<<63 + 1, 1700000000000000000}
	switch r.Pick(5, 2, 2) {
	case 0:
		return pool[r.Intn(len(pool))]
	case 1:
		return int64(r.U64() >> uint(1+r.Intn(63)))
	}
	return int64(r.U64())
}

func genI32(r *rng.R) int32 {
	pool := []int32{0, 1, 2, -1, 127, 128, 255, 256, -128, 1<<31 - 1, -1 << 31, -1<<31 + 1, 65536}
	if r.Chance(60) {
		return pool[r.Intn(len(pool))]
	}
	return int32(r.U64())
}

func genU32(r *rng.R) uint32 {
	pool := []uint32{0, 1, 127, 128, 255, 256, 65535, 65536, 1<<32 - 1, 1 << 31}
	if r.Chance(60) {
		return pool[r.Intn(len(pool))]
	}
	return uint32(r.U64())
}

func genU256(r *rng.R) *uint256.Int {
	pool := []*uint256.Int{uint256.NewInt(0), uint256.NewInt(1), uint256.NewInt(127), uint256.NewInt(128),
		uint256.NewInt(255), uint256.NewInt(256), pow2m1(64), pow2(64), pow2m1(255), pow2(255), pow2m1(256),
		uint256.NewInt(1000000000000000000), uint256.NewInt(10000000000), pow2(248), pow2m1(248)}
	if r.Chance(55) {
		return pool[r.Intn(len(pool))].Clone()
	}
	n := r.Range(0, 32)
	return new(uint256.Int).SetBytes(r.Bytes(n))
}

func genBytes(r *rng.R, thorough bool) []byte {
	switch r.Pick(4, 3, 3, 5, 1) {
	case 0: // single byte around the 0x80 rule
		one := []byte{0x00, 0x01, 0x7f, 0x80, 0x81, 0xff, 0xc0, 0xb7}
		return []byte{one[r.Intn(len(one))]}
	case 1:
		return []byte{}
	case 2:
		lens := []int{1, 2, 20, 32, 54, 55, 56, 57, 255, 256, 300}
		return r.Bytes(lens[r.Intn(len(lens))])
	case 3:
		return r.Bytes(r.Range(0, 70))
	}
	if thorough {
		lens := []int{65535, 65536, 70000}
		return r.Bytes(lens[r.Intn(len(lens))])
	}
	return r.Bytes(r.Range(250, 600))
}

func genAddr(r *rng.R, thorough bool) []byte {
	if r.Chance(70) {
		return r.Bytes(20)
	}
	return genBytes(r, thorough)
}

// text that protobuf accepts in a `string` field (valid UTF-8), so that the wire path is exercised too
func genText(r *rng.R) []byte {
	lens := []int{0, 1, 3, 10, 55, 56, 300}
	n := lens[r.Intn(len(lens))]
	b := make([]byte, n)
	for i := range b {
		b[i] = byte(32 + r.Intn(95))
	}
	if n > 0 && r.Chance(20) {
		b[r.Intn(n)] = '\n'
	}
	return b
}

func genChain(r *rng.R) []byte {
	pool := []string{"", "a", "mainnet", "testnet", "localnet0", "rigo-testnet-1", "tx_executor_test_chain",
		strings.Repeat("c", 50), strings.Repeat("long-chain-id.", 22), "with)paren", "with\nnewline", "(", ")", "))",
		") Signed Message:", " Signed Message:\n", ") Signed Message:\r\n", "\x19RIGO(", "9", "18", "x) Signed Message", "\xc0\xff\x80"}
	if r.Chance(75) {
		return []byte(pool[r.Intn(len(pool))])
	}
	return r.Bytes(r.Range(0, 60))
}

func genOpts(r *rng.R, thorough bool) [][]byte {
	var n int
	switch r.Pick(2, 3, 3, 1) {
	case 0:
		n = 0
	case 1:
		n = 1
	case 2:
		n = r.Range(2, 6)
	default:
		n = r.Range(7, 40)
	}
	var o [][]byte
	for i := 0; i < n; i++ {
		if r.Chance(50) {
			o = append(o, []byte(fmt.Sprintf(`{"gasPrice":"%d"}`, r.Intn(1000))))
		} else {
			o = append(o, genBytes(r, false))
		}
	}
	return o
}

var kinds = []string{"none", "none", "unstaking", "proposal", "voting", "contract", "setdoc", "withdraw"}
var typeOfKind = map[string]int32{"unstaking": 3, "proposal": 4, "voting": 5, "contract": 6, "setdoc": 7, "withdraw": 8}

func genPayload(r *rng.R, kind string, textOnly, thorough bool) payload {
	p := payload{kind: kind}
	str := func() []byte {
		if textOnly || r.Chance(50) {
			return genText(r)
		}
		return genBytes(r, thorough)
	}
	switch kind {
	case "unstaking":
		if r.Chance(60) {
			p.a = r.Bytes(32)
		} else {
			p.a = genBytes(r, thorough)
		}
	case "voting":
		if r.Chance(60) {
			p.a = r.Bytes(32)
		} else {
			p.a = genBytes(r, thorough)
		}
		p.choice = genI32(r)
	case "contract":
		p.a = genBytes(r, thorough)
	case "setdoc":
		p.a, p.b = str(), str()
	case "withdraw":
		p.req = genU256(r)
	case "proposal":
		p.a = str()
		p.start, p.period, p.applying, p.optType = genI64(r), genI64(r), genI64(r), genI32(r)
		p.opts = genOpts(r, thorough)
	}
	return p
}

// genSpec: an arbitrary (not necessarily executor-valid) transaction.
func genSpec(r *rng.R, thorough bool) *spec {
	s := &spec{chain: genChain(r), ver: genU32(r), time: genI64(r), nonce: genU64(r), from: genAddr(r, thorough),
		to: genAddr(r, thorough), amt: genU256(r), gas: genU64(r), gp: genU256(r)}
	ti := r.Intn(8)
	s.typ = int32(ti + 1)
	kind := kinds[ti]
	switch r.Pick(80, 10, 10) {
	case 1: // type outside 1..8 (kept in memory only; fromProto rejects it)
		s.typ = genI32(r)
	case 2: // payload object of another kind than the type says
		kind = kinds[r.Intn(8)]
	}
	s.pl = genPayload(r, kind, false, thorough)
	if r.Chance(50) {
		s.sig = r.Bytes(65)
	} else if r.Chance(30) {
		s.sig = genBytes(r, false)
	}
	if r.Chance(8) { // everything minimal: the whole list shorter than 56 bytes
		s.from, s.to = genBytes(r, false)[:0], []byte{byte(r.Intn(256))}
		s.amt, s.gp = uint256.NewInt(uint64(r.Intn(300))), uint256.NewInt(uint64(r.Intn(3)))
		s.time, s.nonce, s.gas = int64(r.Intn(200)), uint64(r.Intn(200)), uint64(r.Intn(70000))
	}
	return s
}

// genBase: a well-formed transaction of the given type sent by addr (20-byte addresses, wire-encodable).
func genBase(r *rng.R, ti int, addr []byte, thorough bool) *spec {
	s := &spec{chain: genChain(r), ver: genU32(r), time: genI64(r), nonce: genU64(r), from: addr,
		to: r.Bytes(20), amt: genU256(r), gas: genU64(r), gp: genU256(r), typ: int32(ti + 1)}
	for containsSep(s.chain) {
		s.chain = genChain(r)
	}
	s.pl = genPayload(r, kinds[ti], true, thorough)
	return s
}

type mutant struct {
	kind   string
	sigmut string
	b      *spec
}

func otherU64(r *rng.R, v uint64) uint64 {
	for {
		var n uint64
		switch r.Pick(3, 3, 3) {
		case 0:
			n = v + 1
		case 1:
			n = v - 1
		default:
			n = genU64(r)
		}
		if n != v {
			return n
		}
	}
}

func otherI64(r *rng.R, v int64) int64 {
	for {
		var n int64
		switch r.Pick(3, 3, 2, 3) {
		case 0:
			n = v + 1
		case 1:
			n = v - 1
		case 2:
			n = -v
		default:
			n = genI64(r)
		}
		if n != v {
			return n
		}
	}
}

func otherI32(r *rng.R, v int32) int32 {
	for {
		var n int32
		switch r.Pick(3, 3, 2, 3) {
		case 0:
			n = v + 1
		case 1:
			n = v - 1
		case 2:
			n = -v
		default:
			n = genI32(r)
		}
		if n != v {
			return n
		}
	}
}

func otherU256(r *rng.R, v *uint256.Int) *uint256.Int {
	for {
		var n *uint256.Int
		switch r.Pick(3, 3, 2, 3) {
		case 0:
			n = new(uint256.Int).AddUint64(v, 1)
		case 1:
			n = new(uint256.Int).SubUint64(v, 1)
		case 2:
			n = new(uint256.Int).Lsh(v, 8) // same bytes plus a trailing zero byte
		default:
			n = genU256(r)
		}
		if !n.Eq(v) {
			return n
		}
	}
}

func otherBytes(r *rng.R, v []byte, thorough bool) []byte {
	for {
		n := append([]byte{}, v...)
		switch r.Pick(4, 2, 2, 2, 2) {
		case 0:
			if len(n) == 0 {
				n = []byte{0}
			} else {
				n[r.Intn(len(n))] ^= 1 << uint(r.Intn(8))
			}
		case 1:
			if len(n) > 0 {
				n = n[:len(n)-1]
			} else {
				n = []byte{0x80}
			}
		case 2:
			n = append(n, 0)
		case 3:
			n = append([]byte{0}, n...)
		default:
			n = genBytes(r, thorough)
		}
		if !bytes.Equal(n, v) {
			return n
		}
	}
}

// otherText keeps protobuf-valid text (single ASCII substitutions / length changes)
func otherText(r *rng.R, v []byte) []byte {
	for {
		n := append([]byte{}, v...)
		switch r.Pick(4, 2, 2, 2) {
		case 0:
			if len(n) == 0 {
				n = []byte{'x'}
			} else {
				n[r.Intn(len(n))] = byte(32 + r.Intn(95))
			}
		case 1:
			if len(n) > 0 {
				n = n[:len(n)-1]
			} else {
				n = []byte{' '}
			}
		case 2:
			n = append(n, 'z')
		default:
			n = genText(r)
		}
		if !bytes.Equal(n, v) {
			return n
		}
	}
}

func otherChain(r *rng.R, c []byte) []byte {
	for {
		var n []byte
		switch r.Pick(2, 2, 2, 2, 1, 4) {
		case 0:
			n = append(append([]byte{}, c...), 'x')
		case 1:
			if len(c) > 0 {
				n = append([]byte{}, c[:len(c)-1]...)
			} else {
				n = []byte("0")
			}
		case 2:
			n = append([]byte{'('}, c...)
		case 3:
			n = bytes.ToUpper(c)
		case 4:
			n = []byte{}
		default:
			n = genChain(r)
		}
		if !bytes.Equal(n, c) && !containsSep(n) {
			return n
		}
	}
}

// mutations derives the mutants of one signed base transaction.
func mutations(r *rng.R, a *spec, attackerKey, attackerAddr []byte, thorough bool) []mutant {
	var ms []mutant
	add := func(kind, sigmut string, f func(b *spec)) {
		b := a.clone()
		f(b)
		ms = append(ms, mutant{kind, sigmut, b})
	}
	fieldMuts := []struct {
		kind string
		f    func(b *spec)
	}{
		{"version", func(b *spec) { b.ver = uint32(otherU64(r, uint64(b.ver))) }},
		{"time", func(b *spec) { b.time = otherI64(r, b.time) }},
		{"nonce", func(b *spec) { b.nonce = otherU64(r, b.nonce) }},
		{"to", func(b *spec) { b.to = otherBytes(r, b.to, false) }},
		{"amount", func(b *spec) { b.amt = otherU256(r, b.amt) }},
		{"gas", func(b *spec) { b.gas = otherU64(r, b.gas) }},
		{"gasPrice", func(b *spec) { b.gp = otherU256(r, b.gp) }},
	}
	for _, fm := range fieldMuts {
		if fm.kind == "version" {
			add(fm.kind, "none", func(b *spec) {
				for b.ver == a.ver {
					fm.f(b)
				}
			})
			continue
		}
		add(fm.kind, "none", fm.f)
	}
	// claimed sender
	add("from-attacker", "none", func(b *spec) { b.from = append([]byte{}, attackerAddr...) })
	add("from-other", "none", func(b *spec) { b.from = otherBytes(r, b.from, false) })
	// a valid signature by somebody else while From still names the victim
	add("sig-other-key", "other:"+hex.EncodeToString(attackerKey), func(b *spec) {})
	// boundary shift between adjacent byte-string fields (what a non-prefix-free code would allow)
	add("shift-from-to", "none", func(b *spec) {
		k := r.Range(1, len(b.from))
		b.to = append(append([]byte{}, b.from[len(b.from)-k:]...), b.to...)
		b.from = b.from[:len(b.from)-k]
	})
	// type
	switch a.pl.kind {
	case "none":
		add("type", "none", func(b *spec) { b.typ = 3 - b.typ }) // transfer <-> staking
	case "unstaking":
		add("type", "none", func(b *spec) { b.typ = 6; b.pl.kind = "contract" }) // same payload bytes, other type
	case "contract":
		add("type", "none", func(b *spec) { b.typ = 3; b.pl.kind = "unstaking" })
	case "withdraw":
		add("type", "none", func(b *spec) { b.typ = 6; b.pl = payload{kind: "contract", a: b.pl.req.Bytes()} })
	default:
		add("type", "none", func(b *spec) { b.typ = otherI32(r, b.typ) })
	}
	add("type-any", "none", func(b *spec) { b.typ = otherI32(r, b.typ) })
	// payload fields
	switch a.pl.kind {
	case "unstaking":
		add("payload.txhash", "none", func(b *spec) { b.pl.a = otherBytes(r, b.pl.a, false) })
	case "voting":
		add("payload.txhash", "none", func(b *spec) { b.pl.a = otherBytes(r, b.pl.a, false) })
		add("payload.choice", "none", func(b *spec) { b.pl.choice = otherI32(r, b.pl.choice) })
	case "contract":
		add("payload.data", "none", func(b *spec) { b.pl.a = otherBytes(r, b.pl.a, thorough) })
	case "setdoc":
		add("payload.name", "none", func(b *spec) { b.pl.a = otherText(r, b.pl.a) })
		add("payload.url", "none", func(b *spec) { b.pl.b = otherText(r, b.pl.b) })
		if len(a.pl.a)+len(a.pl.b) > 0 {
			add("payload.shift-name-url", "none", func(b *spec) {
				all := append(append([]byte{}, b.pl.a...), b.pl.b...)
				k := len(b.pl.a)
				for k == len(b.pl.a) {
					k = r.Range(0, len(all))
				}
				b.pl.a, b.pl.b = all[:k], all[k:]
			})
		}
	case "withdraw":
		add("payload.reqAmt", "none", func(b *spec) { b.pl.req = otherU256(r, b.pl.req) })
	case "proposal":
		add("payload.message", "none", func(b *spec) { b.pl.a = otherText(r, b.pl.a) })
		add("payload.start", "none", func(b *spec) { b.pl.start = otherI64(r, b.pl.start) })
		add("payload.period", "none", func(b *spec) { b.pl.period = otherI64(r, b.pl.period) })
		add("payload.applying", "none", func(b *spec) { b.pl.applying = otherI64(r, b.pl.applying) })
		add("payload.optType", "none", func(b *spec) { b.pl.optType = otherI32(r, b.pl.optType) })
		add("payload.options", "none", func(b *spec) {
			o := b.pl.opts
			switch {
			case len(o) == 0:
				b.pl.opts = [][]byte{{}}
			default:
				i := r.Intn(len(o))
				switch r.Pick(3, 2, 2, 2, 2) {
				case 0:
					o[i] = otherBytes(r, o[i], false)
				case 1: // drop one
					b.pl.opts = append(o[:i:i], o[i+1:]...)
				case 2: // add one
					b.pl.opts = append(o, genBytes(r, false))
				case 3: // split one option in two (same concatenated bytes)
					k := r.Range(0, len(o[i]))
					n := append([][]byte{}, o[:i]...)
					n = append(n, append([]byte{}, o[i][:k]...), append([]byte{}, o[i][k:]...))
					b.pl.opts = append(n, o[i+1:]...)
				default: // swap two / duplicate
					if len(o) >= 2 && !bytes.Equal(o[0], o[len(o)-1]) {
						o[0], o[len(o)-1] = o[len(o)-1], o[0]
					} else {
						b.pl.opts = append(o, append([]byte{}, o[0]...))
					}
				}
			}
		})
		add("payload.swap-heights", "none", func(b *spec) {
			if b.pl.start != b.pl.period {
				b.pl.start, b.pl.period = b.pl.period, b.pl.start
			} else {
				b.pl.start++
			}
		})
	}
	// chain id
	add("chain", "none", func(b *spec) { b.chain = otherChain(r, b.chain) })
	// signature bytes
	add("sig-flip", fmt.Sprintf("flip:%d", r.Intn(520)), func(b *spec) {})
	add("sig-flip-v", fmt.Sprintf("flip:%d", 512+r.Intn(8)), func(b *spec) {})
	for _, sm := range []string{"zero", "trunc", "ext", "empty"} {
		if r.Chance(50) {
			add("sig-"+sm, sm, func(b *spec) {})
		}
	}
	add("sig-twin", "twin", func(b *spec) {})
	// several fields at once
	add("multi", "none", func(b *spec) {
		n := r.Range(2, 4)
		for i := 0; i < n; i++ {
			fieldMuts[1+r.Intn(len(fieldMuts)-1)].f(b)
		}
		if r.Chance(30) {
			b.chain = otherChain(r, b.chain)
		}
		if b.signedTokens() == a.signedTokens() && bytes.Equal(b.chain, a.chain) {
			b.nonce++
		}
	})
	// control: nothing changed
	add("identity", "none", func(b *spec) {})
	return ms
}

// collisionProbe builds the excluded point of WFChainId: chain ids c1 and c2 = c1 ++ sep ++ ... such
// that (c1, contract call t1) and (c2, transfer t2) have the same signed bytes.
func collisionProbe(r *rng.R, key, addr []byte) (string, error) {
	c1 := []byte("mainnet")
	t2 := &spec{chain: nil, ver: 1, time: genI64(r), nonce: uint64(r.Intn(1000)), from: addr, to: r.Bytes(20),
		amt: pow2m1(100), gas: 100000, gp: uint256.NewInt(10000000000), typ: 1, pl: payload{kind: "none"}}
	t2.nonce &^= 1 // nil payload object
	r2, err := realEnc(t2)
	if err != nil {
		return "", err
	}
	tail := append([]byte(sepStr), []byte(strconv.Itoa(len(r2)))...)
	tail = append(tail, r2...)
	data := append(r.Bytes(r.Intn(5)), tail[:len(tail)-1]...) // r2 ends with 0x80 = t1's empty signature item
	t1 := &spec{chain: c1, ver: 1, time: genI64(r), nonce: uint64(r.Intn(1000)), from: addr, to: r.Bytes(20),
		amt: uint256.NewInt(0), gas: 3000000, gp: uint256.NewInt(10000000000), typ: 6, pl: payload{kind: "contract", a: data}}
	r1, err := realEnc(t1)
	if err != nil {
		return "", err
	}
	if !bytes.HasSuffix(r1, tail) {
		return "", fmt.Errorf("collision probe: construction failed")
	}
	c2 := append(append([]byte{}, c1...), []byte(sepStr)...)
	c2 = append(c2, []byte(strconv.Itoa(len(r1)))...)
	c2 = append(c2, r1[:len(r1)-len(tail)]...)
	t2.chain = c2
	return monLine("excluded-chainid", key, "none", t1, t2), nil
}

func monLine(kind string, key []byte, sigmut string, a, b *spec) string {
	return fmt.Sprintf("mon %s %s %s / %s / %s", kind, hex.EncodeToString(key), sigmut,
		strings.Join(a.tokens(), " "), strings.Join(b.tokens(), " "))
}

func genKey(r *rng.R) ([]byte, []byte) {
	for {
		k := r.Bytes(32)
		if a, err := keyAddr(k); err == nil {
			return k, a
		}
	}
}

// ---------------------------------------------------------------------------------------------

func realLine(ws []string) (out string, mo *monOut) {
	switch ws[0] {
	case "pre", "enc":
		s, err := parseSpec(ws[1:])
		if err != nil {
			return "bad-op", nil
		}
		var bz []byte
		if ws[0] == "pre" {
			bz, err = realPre(s)
		} else {
			bz, err = realEnc(s)
		}
		if err != nil {
			return "error " + err.Error(), nil
		}
		return hx(bz), nil
	case "mon":
		o := runMon(ws)
		if o.err != "" {
			return "error " + o.err, &o
		}
		return o.line, &o
	case "reset":
		return "reset", nil
	}
	return "bad-op", nil
}

func nontrivial(s *spec) bool {
	n := 0
	for _, c := range []bool{s.ver != 0, s.time != 0, s.nonce != 0, len(s.from) > 0, len(s.to) > 0, !s.amt.IsZero(),
		s.gas != 0, !s.gp.IsZero(), s.pl.kind != "none", len(s.chain) > 0} {
		if c {
			n++
		}
	}
	return n >= 4
}

func short(s string) string {
	if len(s) > 400 {
		return s[:400] + "..."
	}
	return s
}

// Run is the stream entry point.
func Run(seed uint64, tier, work, driver string, replay []string) *common.Result {
	res := common.NewResult("rlp", seed, tier)
	res.Rule = "a case is one line: `pre`/`enc` = one random or boundary transaction of one of the 8 types (type x payload-kind x " +
		"boundary pools for every integer, 256-bit amount, byte-string length 0/1/55/56/255/256/300.., chain id incl. empty/50/300 bytes/embedded " +
		"')' and newline) whose signed bytes / full RLP are computed by the real code and by the Lean model and compared byte for byte; " +
		"`mon` = one signed base transaction plus one mutation (each signed field, each payload field, sender, chain id, signature bytes, several at once, " +
		"identity control) judged by the real VerifyTrxRLP in memory and after an Encode/Decode round trip. " +
		"distinct_nontrivial = distinct signed byte strings of transactions with at least 4 non-default fields plus distinct mutant lines"
	thorough := tier == "thorough"
	r := rng.New(seed)
	nPre, nEnc, nBase := 6000, 1500, 900
	if thorough {
		nPre, nEnc, nBase = 30000, 8000, 5000
	}
	var lines []string
	if replay != nil {
		lines = replay
	} else {
		for i := 0; i < nPre; i++ {
			lines = append(lines, "pre "+strings.Join(genSpec(r.Fork(), thorough).tokens(), " "))
		}
		for i := 0; i < nEnc; i++ {
			lines = append(lines, "enc "+strings.Join(genSpec(r.Fork(), thorough).tokens(), " "))
		}
		for i := 0; i < nBase; i++ {
			rr := r.Fork()
			key, addr := genKey(rr)
			akey, aaddr := genKey(rr)
			a := genBase(rr, i%8, addr, thorough)
			for _, m := range mutations(rr, a, akey, aaddr, thorough) {
				lines = append(lines, monLine(m.kind, key, m.sigmut, a, m.b))
			}
		}
		for i := 0; i < 5; i++ {
			rr := r.Fork()
			key, addr := genKey(rr)
			l, err := collisionProbe(rr, key, addr)
			if err != nil {
				res.Error = err.Error()
				return res
			}
			lines = append(lines, l)
		}
	}

	distinct := common.Distinct{}
	realOut := make([]string, len(lines))
	violate := func(kind, detail, line string) {
		if len(res.Violations) < 20 {
			res.Violations = append(res.Violations, common.Violation{Property: "C03", Kind: kind, Detail: detail, Ops: []string{line}})
		}
	}
	excluded := map[string]int{}
	for i, l := range lines {
		ws := strings.Fields(l)
		if len(ws) == 0 {
			continue
		}
		out, mo := realLine(ws)
		realOut[i] = out
		res.Evaluations++
		res.Histories++
		switch ws[0] {
		case "pre", "enc":
			s, err := parseSpec(ws[1:])
			if err == nil {
				res.Count(fmt.Sprintf("%s/type=%s/payload=%s", ws[0], typeClass(s.typ), s.pl.kind))
				if ws[0] == "pre" && nontrivial(s) {
					distinct.Add(out)
				}
			}
			if strings.HasPrefix(out, "error") {
				res.Count(ws[0] + "/error")
			}
		case "mon":
			kind := ws[1]
			if mo == nil || mo.err != "" {
				res.Count("mon/" + kind + "/harness-error")
				res.Notes = append(res.Notes, "mon line could not be evaluated: "+short(out))
				continue
			}
			distinct.Add(l)
			res.Count(fmt.Sprintf("mon/%s/mem=%s,wire=%s,pre=%s", kind, mo.mem, mo.wire, sd(mo.preSame)))
			if mo.orig != "accept" {
				violate("original-rejected", "VerifyTrxRLP rejects a transaction signed by the key of its sender: "+mo.orig, l)
			}
			changed := !mo.fieldsSame || !mo.chainSame
			sigmut := strings.Fields(strings.SplitN(l, "/", 2)[0])[3]
			accepted := mo.mem == "accept" || mo.wire == "accept"
			panicked := strings.HasPrefix(mo.mem, "panic") || strings.HasPrefix(mo.wire, "panic")
			switch {
			case panicked:
				violate("verify-panic", fmt.Sprintf("VerifyTrxRLP panicked on a %s mutant: mem=%s wire=%s", kind, mo.mem, mo.wire), l)
			case mo.excludedChain:
				// outside WFChainId: reported, not judged
				excluded[fmt.Sprintf("pre=%s verdict mem=%s wire=%s", sd(mo.preSame), mo.mem, mo.wire)]++
			case !changed && sigmut == "none":
				if !accepted {
					violate("original-rejected", "identity control rejected", l)
				}
			case !changed && sigmut == "twin":
				// (r, n-s, v^1): same message, same signer. Not an alteration of any signed field.
			case accepted:
				violate("mutation-accepted", fmt.Sprintf("mutation %s (sigmut %s) of a signed transaction still verifies: mem=%s wire=%s pre-image %s",
					kind, sigmut, mo.mem, mo.wire, sd(mo.preSame)), l)
			}
			if changed && mo.preSame && !mo.excludedChain {
				violate("preimage-collision", fmt.Sprintf("mutation %s changes a signed field or the chain id but not the signed bytes", kind), l)
			}
			if !changed && !mo.preSame {
				violate("preimage-unstable", "equal signed fields and chain id give different signed bytes", l)
			}
		}
		if len(res.Samples) < 3 && (i%2500 == 0) {
			res.Samples = append(res.Samples, short(l)+"  =>  "+short(out))
		}
	}
	if len(lines) > 0 && len(res.Samples) < 4 {
		res.Samples = append(res.Samples, short(lines[len(lines)-1])+"  =>  "+short(realOut[len(lines)-1]))
	}
	res.DistinctNontrivial = len(distinct)
	for k, n := range excluded {
		res.Count("excluded-chainid/" + k)
		res.Notes = append(res.Notes, fmt.Sprintf("excluded chain id (contains %q), %d probes: a signature made for a contract call on chain \"mainnet\" "+
			"is presented with a transfer on a chain whose id extends \"mainnet\" by the separator, a length and the head of the call's RLP: %s "+
			"(not judged: WFChainId excludes it; Tendermint limits chain ids to 50 bytes, the colliding id needs > 70)", sepStr, n, k))
	}

	// Lean model on the same lines
	modelOut, err := common.RunDriver(driver, "rlp", lines)
	if err != nil {
		res.Error = err.Error()
		return res
	}
	if len(modelOut) != len(lines) {
		res.Error = fmt.Sprintf("model printed %d lines for %d operations", len(modelOut), len(lines))
		return res
	}
	for i, l := range lines {
		if modelOut[i] != realOut[i] {
			k := 0
			for k < len(modelOut[i]) && k < len(realOut[i]) && modelOut[i][k] == realOut[i][k] {
				k++
			}
			from := k - 40
			if from < 0 {
				from = 0
			}
			res.Disagreements = append(res.Disagreements, common.Disagreement{History: i, Index: 0, Op: short(l),
				Impl:  fmt.Sprintf("[first difference at char %d] ...%s", k, short(realOut[i][from:])),
				Model: fmt.Sprintf("[first difference at char %d] ...%s", k, short(modelOut[i][from:])), Ops: []string{l}})
			if len(res.Disagreements) >= 5 {
				break
			}
		}
	}
	return res
}

func typeClass(t int32) string {
	if t >= 1 && t <= 8 {
		return strconv.Itoa(int(t))
	}
	if t < 0 {
		return "neg"
	}
	return "other"
}
