package appmon

import (
	"bytes"
	"fmt"
	"math/big"

	"github.com/ethereum/go-ethereum/common"
	ethcore "github.com/ethereum/go-ethereum/core"
	"github.com/ethereum/go-ethereum/core/state"
	ethtypes "github.com/ethereum/go-ethereum/core/types"
	"github.com/ethereum/go-ethereum/core/vm"
	ctrlertypes "github.com/rigochain/rigo-go/ctrlers/types"
	"github.com/rigochain/rigo-go/ctrlers/vm/evm"
	rtypes "github.com/rigochain/rigo-go/types"
	tmtypes "github.com/tendermint/tendermint/types"
	"verifharness/internal/appdrv"
	"verifharness/internal/apphist"
)

// C17: every contract execution is repeated on a REFERENCE: a plain go-ethereum StateDB (a copy of the
// node's EVM state before the transaction) whose balances and nonces are set to the native ledger's,
// executed by core.ApplyMessage with the same message and block context. Outcome, return data, gas,
// logs, and afterwards balances / nonces / code / storage must agree with the node.

type evmRef struct {
	db       *state.StateDB
	res      *ethcore.ExecutionResult
	err      error
	tx       *ctrlertypes.Trx
	hash     common.Hash
	native   bool // the node will execute this natively although the receiver has EVM code
	contract []common.Address
	preSum   *big.Int
	price    *big.Int
}

func canTransfer(db vm.StateDB, addr common.Address, amount *big.Int) bool {
	return db.GetBalance(addr).Cmp(amount) >= 0
}
func transfer(db vm.StateDB, sender, recipient common.Address, amount *big.Int) {
	db.SubBalance(sender, amount)
	db.AddBalance(recipient, amount)
}

func addr20(b []byte) common.Address {
	var a common.Address
	copy(a[:], b)
	return a
}

func (m *Monitor) OnPreDeliver(s *apphist.Sim, bz []byte) {
	m.ref = nil
	tx := &ctrlertypes.Trx{}
	if tx.Decode(bz) != nil || len(tx.From) != 20 || len(tx.To) != 20 {
		return
	}
	w := s.N.App.VerifEVM().VerifStateDB()
	if w == nil || w.StateDB == nil {
		return
	}
	toCode := !rtypes.IsZeroAddress(tx.To) && w.StateDB.GetCodeSize(addr20(tx.To)) > 0
	recv := s.N.AccountView(tx.To)
	marked := recv != nil && recv.Code != nil
	if !(tx.Type == ctrlertypes.TRX_CONTRACT || (tx.Type == ctrlertypes.TRX_TRANSFER && (toCode || marked))) {
		return
	}
	ref := w.StateDB.Copy()
	pre := Parse(s.N.Dump())
	for _, a := range pre.Accts {
		b := fromHexS(a.Addr)
		if len(b) != 20 {
			continue
		}
		ref.SetBalance(addr20(b), new(big.Int).Set(a.Bal))
		ref.SetNonce(addr20(b), a.Nonce)
	}
	var data []byte
	if p, ok := tx.Payload.(*ctrlertypes.TrxPayloadContract); ok {
		data = p.Data
	}
	var to *common.Address
	if !rtypes.IsZeroAddress(tx.To) {
		t := addr20(tx.To)
		to = &t
	}
	price := bigOf(Param(pre.Active, PGasPrice))
	msg := ethtypes.NewMessage(addr20(tx.From), to, tx.Nonce, tx.Amount.ToBig(), tx.Gas, price, big.NewInt(0), big.NewInt(0), data, nil, false)
	var coinbase common.Address
	if s.Cur != nil {
		copy(coinbase[:], s.Cur.Proposer)
	}
	bctx := vm.BlockContext{CanTransfer: canTransfer, Transfer: transfer, GetHash: func(uint64) common.Hash { return common.Hash{} },
		Coinbase: coinbase, BlockNumber: big.NewInt(s.Height + 1), Time: big.NewInt(s.Time), Difficulty: big.NewInt(1),
		BaseFee: big.NewInt(0), GasLimit: 25000000}
	e := vm.NewEVM(bctx, ethcore.NewEVMTxContext(msg), ref, evm.RIGOMainnetEVMCtrlerChainConfig, vm.Config{NoBaseFee: true})
	preSum := new(big.Int)
	for _, a := range pre.Accts {
		if len(fromHexS(a.Addr)) == 20 {
			preSum.Add(preSum, a.Bal)
		}
	}
	r := &evmRef{db: ref, tx: tx, preSum: preSum, price: price, hash: common.BytesToHash(tmtypes.Tx(bz).Hash()), native: tx.Type == ctrlertypes.TRX_TRANSFER && !marked}
	ref.Prepare(r.hash, 0)
	snap := ref.Snapshot()
	func() {
		defer func() {
			if x := recover(); x != nil {
				r.err = fmt.Errorf("reference panicked: %v", x)
			}
		}()
		r.res, r.err = ethcore.ApplyMessage(e, msg, new(ethcore.GasPool).AddGas(25000000))
	}()
	if r.err != nil || r.res.Failed() {
		ref.RevertToSnapshot(snap)
	} else {
		ref.Finalise(true)
	}
	for _, c := range s.Contracts {
		r.contract = append(r.contract, addr20(c.Addr))
	}
	for _, c := range s.Children {
		r.contract = append(r.contract, addr20(c))
	}
	if to != nil {
		r.contract = append(r.contract, *to)
	}
	m.ref = r
}

func fromHexS(h string) []byte {
	if h == "-" {
		return nil
	}
	b := make([]byte, len(h)/2)
	for i := range b {
		fmt.Sscanf(h[2*i:2*i+2], "%02x", &b[i])
	}
	return b
}

// checkRef compares the node's execution with the reference (called from OnDeliver).
func (m *Monitor) checkRef(s *apphist.Sim, post *State, o appdrv.TxOut, tr *appdrv.EvmTrace) {
	r := m.ref
	m.ref = nil
	if r == nil {
		return
	}
	if o.Code != 0 && len(tr.Events) == 0 {
		return // rejected by the native validation before reaching the EVM (signature, nonce, funds, gas ...)
	}
	hash := fmt.Sprintf("%x", r.hash[:])
	refOK := r.err == nil && !r.res.Failed()
	nodeOK := o.Code == 0
	if r.err != nil && (appdrv.ErrKind(o.Code, o.Log) == "evmgaspool") {
		return // block gas pool exhaustion depends on earlier transactions of the block
	}
	if r.native {
		// known gap: a plain transfer to a contract created by an inner CREATE is executed natively
		if nodeOK != refOK {
			m.fail(s, "C17", "transfer-to-inner-created-contract", fmt.Sprintf("plain transfer %s to %x (has EVM code, no native code marker): node ok=%v, reference EVM ok=%v", hash, []byte(r.tx.To), nodeOK, refOK))
			return
		}
		if nodeOK {
			for _, a := range post.Accts {
				b := fromHexS(a.Addr)
				if len(b) == 20 && a.Addr != appdrv.Hex(r.tx.From) && r.db.GetBalance(addr20(b)).Cmp(a.Bal) != 0 {
					m.fail(s, "C17", "transfer-to-inner-created-contract", fmt.Sprintf("plain transfer %s to contract %x executed natively: balance of %s is %s, reference EVM gives %s", hash, []byte(r.tx.To), a.Addr, a.Bal, r.db.GetBalance(addr20(b))))
					return
				}
			}
		}
		m.ok("C17.native-transfer-to-code")
		return
	}
	if nodeOK != refOK {
		m.fail(s, "C17", "evm-ref-outcome", fmt.Sprintf("tx %s: node ok=%v (%s) but reference EVM ok=%v (%v / %v)", hash, nodeOK, appdrv.ErrKind(o.Code, o.Log), refOK, r.err, errOf(r.res)))
		return
	}
	if r.res != nil {
		isCreate := rtypes.IsZeroAddress(r.tx.To)
		if !(isCreate && nodeOK) && !bytes.Equal(o.Data, r.res.ReturnData) && !(len(o.Data) == 0 && len(r.res.ReturnData) == 0) {
			m.fail(s, "C17", "evm-ref-retdata", fmt.Sprintf("tx %s: return data %x, reference %x", hash, o.Data, r.res.ReturnData))
		}
		if nodeOK && uint64(o.GasUsed) != r.res.UsedGas {
			m.fail(s, "C17", "evm-ref-gas", fmt.Sprintf("tx %s: gas used %d, reference %d", hash, o.GasUsed, r.res.UsedGas))
		}
	}
	if !nodeOK {
		m.ok("C17.ref-failed")
		return
	}
	// how much value the reference run burns (self-destruct to self): Σ pre-balances - fee - Σ post-balances over the reference world
	{
		sumRef := new(big.Int)
		seen := map[common.Address]bool{}
		for _, a := range post.Accts {
			b := fromHexS(a.Addr)
			if len(b) == 20 && !seen[addr20(b)] {
				seen[addr20(b)] = true
				sumRef.Add(sumRef, r.db.GetBalance(addr20(b)))
			}
		}
		fee := new(big.Int).Mul(new(big.Int).SetUint64(r.res.UsedGas), r.price)
		m.refBurn = new(big.Int).Sub(new(big.Int).Sub(r.preSum, fee), sumRef)
		if m.refBurn.Sign() < 0 {
			m.refBurn = nil
		}
	}
	// balances and nonces of every native account equal the reference world's
	for _, a := range post.Accts {
		b := fromHexS(a.Addr)
		if len(b) != 20 {
			continue
		}
		if r.db.GetBalance(addr20(b)).Cmp(a.Bal) == 0 && r.db.GetNonce(addr20(b)) != a.Nonce && !r.db.Exist(addr20(b)) && a.Code != "-" {
			m.fail(s, "C17", "evm-ref-selfdestruct-nonce", fmt.Sprintf("tx %s: self-destructed contract %s keeps nonce %d (and its code marker) in the native ledger; in the reference EVM world the account no longer exists", hash, a.Addr, a.Nonce))
			continue
		}
		if r.db.GetBalance(addr20(b)).Cmp(a.Bal) != 0 || r.db.GetNonce(addr20(b)) != a.Nonce {
			m.fail(s, "C17", "evm-ref-balance", fmt.Sprintf("tx %s: native account %s has balance %s nonce %d, reference EVM world has %s / %d", hash, a.Addr, a.Bal, a.Nonce, r.db.GetBalance(addr20(b)), r.db.GetNonce(addr20(b))))
			break
		}
	}
	// code and storage of the contracts involved
	w := s.N.App.VerifEVM().VerifStateDB()
	cs := append([]common.Address(nil), r.contract...)
	if rtypes.IsZeroAddress(r.tx.To) && len(o.Data) == 20 {
		cs = append(cs, addr20(o.Data))
	}
	for _, c := range cs {
		if !bytes.Equal(w.StateDB.GetCode(c), r.db.GetCode(c)) {
			m.fail(s, "C17", "evm-ref-code", fmt.Sprintf("tx %s: code of %x differs from the reference", hash, c[:]))
		}
		for slot := 0; slot < 8; slot++ {
			k := common.BigToHash(big.NewInt(int64(slot)))
			if w.StateDB.GetState(c, k) != r.db.GetState(c, k) {
				m.fail(s, "C17", "evm-ref-storage", fmt.Sprintf("tx %s: storage slot %d of %x is %x, reference %x", hash, slot, c[:], w.StateDB.GetState(c, k), r.db.GetState(c, k)))
			}
		}
	}
	// logs
	nl, rl := w.StateDB.GetLogs(r.hash, common.Hash{}), r.db.GetLogs(r.hash, common.Hash{})
	if len(nl) != len(rl) {
		m.fail(s, "C17", "evm-ref-logs", fmt.Sprintf("tx %s: %d logs, reference %d", hash, len(nl), len(rl)))
	} else {
		for i := range nl {
			if nl[i].Address != rl[i].Address || !bytes.Equal(nl[i].Data, rl[i].Data) || len(nl[i].Topics) != len(rl[i].Topics) {
				m.fail(s, "C17", "evm-ref-logs", fmt.Sprintf("tx %s: log %d differs from the reference", hash, i))
			}
		}
	}
	m.ok("C17.ref-ok")
}

func errOf(r *ethcore.ExecutionResult) error {
	if r == nil {
		return nil
	}
	return r.Err
}
