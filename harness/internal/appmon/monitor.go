package appmon

import (
	"fmt"
	"math/big"
	"os"
	"sort"
	"strings"

	ctrlertypes "github.com/rigochain/rigo-go/ctrlers/types"
	tmtypes "github.com/tendermint/tendermint/types"
	"verifharness/internal/appdrv"
	"verifharness/internal/apphist"
	"verifharness/internal/common"
)

// Monitor implements apphist.Observer. Every check is derived from a property statement.
type Monitor struct {
	V             []common.Violation
	seen          map[string]bool
	genesis       *big.Int // total value at genesis
	withdrawn     *big.Int
	slashed       *big.Int // destroyed by slashing (fons)
	feeBurn       *big.Int
	evmBurn       *big.Int
	blockFees     *big.Int // Σ gasUsed·price of successful txs in the current block
	blockWd       *big.Int
	created       map[string]Stake // stakes created by successful staking txs, by hash, until refunded
	refundDue     map[string]Stake // committed unbonding stakes
	committed     map[int64]string // canonical dump per committed height
	answers       map[string]string
	pendingChg    bool // a parameter change is pending for this commit (legitimately)
	lastActive    string
	burnOK        bool // the current tx may legitimately burn (self-destruct templates)
	block1Changed bool
	tmKind        string
	ref           *evmRef
	refBurn       *big.Int // burn of the current contract tx according to the reference EVM run (nil = unknown)
	collisionSeen bool
	genesisDump   string
	Checks        map[string]int
}

func New() *Monitor {
	return &Monitor{seen: map[string]bool{}, withdrawn: new(big.Int), slashed: new(big.Int), feeBurn: new(big.Int), evmBurn: new(big.Int),
		blockFees: new(big.Int), blockWd: new(big.Int), created: map[string]Stake{}, refundDue: map[string]Stake{}, committed: map[int64]string{},
		answers: map[string]string{}, Checks: map[string]int{}}
}

func (m *Monitor) fail(s *apphist.Sim, prop, kind, detail string) {
	key := prop + "/" + kind
	if m.seen[key] {
		return
	}
	m.seen[key] = true
	m.V = append(m.V, common.Violation{Property: prop, Kind: kind, Detail: fmt.Sprintf("block %d: %s", s.Height+1, detail), Ops: s.ReplayLines()})
}

func (m *Monitor) ok(name string) { m.Checks[name]++ }

// Report lets the stream driver file a finding of a probe that is not tied to one ABCI call (vm_call probes).
func (m *Monitor) Report(s *apphist.Sim, prop, kind, detail, check string) {
	if kind != "" {
		m.fail(s, prop, kind, detail)
	}
	m.ok(check)
}

func short(s string, n int) string {
	if len(s) > n {
		return s[:n] + "..."
	}
	return s
}

func (m *Monitor) OnInit(s *apphist.Sim, post string) {
	st := Parse(post)
	m.genesisDump = post
	m.genesis = st.TotalValue()
	m.lastActive = st.Active
	m.checkDelegs(s, st, "genesis")
}

// ---- C11: delegatee sums
func (m *Monitor) checkDelegs(s *apphist.Sim, st *State, when string) {
	for _, d := range st.Delegs {
		var tot, self int64
		for _, k := range d.Stakes {
			tot += k.Power
			if k.Owner == d.Addr {
				self += k.Power
			}
			if k.To != d.Addr {
				m.fail(s, "C11", "stake-target", fmt.Sprintf("%s: stake %s bonded under delegatee %s names target %s", when, k.Hash, d.Addr, k.To))
			}
		}
		if tot != d.Total || self != d.Self {
			m.fail(s, "C11", "deleg-sum", fmt.Sprintf("%s: delegatee %s total=%d self=%d but stakes sum to total=%d self=%d", when, d.Addr, d.Total, d.Self, tot, self))
		}
		m.ok("C11.deleg-sum")
	}
}

func slashOf(p, ratio int64) (newPower int64, forfeited bool, destroyed int64) {
	sl := p * ratio / 100
	if sl < 1 {
		return 0, true, p
	}
	return p - sl, false, sl
}

func (m *Monitor) OnBegin(s *apphist.Sim, a *apphist.BeginArgs, preD, postD string, out appdrv.BeginOut) {
	pre, post := Parse(preD), Parse(postD)
	m.blockFees = new(big.Int)
	m.blockWd = new(big.Int)
	ratio := i64(Param(pre.Active, PSlash))
	// ---- C14 slashing: expected effect of the evidence, in order, on the pre-state
	exp := map[string]*Deleg{}
	for k, d := range pre.Delegs {
		c := *d
		c.Stakes = append([]Stake(nil), d.Stakes...)
		exp[k] = &c
	}
	destroyed := int64(0)
	targets := map[string]bool{}
	for _, e := range a.Evid {
		addr := appdrv.Hex(e)
		d, ok := exp[addr]
		if !ok {
			continue
		}
		targets[addr] = true
		var kept []Stake
		for _, k := range d.Stakes {
			np, forfeited, des := slashOf(k.Power, ratio)
			destroyed += des
			if !forfeited {
				k.Power = np
				kept = append(kept, k)
			}
		}
		d.Stakes = kept
	}
	// non-signers may additionally be jailed (all stakes moved to unbonding) or get a missed-height mark;
	// compare stake lists of every delegatee that still exists, and require existence of non-jailed ones
	absent := map[string]bool{}
	for _, v := range a.Votes {
		if !v.Signed {
			absent[appdrv.Hex(v.Addr)] = true
		}
	}
	for addr, d := range exp {
		pd, ok := post.Delegs[addr]
		if !ok {
			if !absent[addr] {
				m.fail(s, "C14", "deleg-vanished", fmt.Sprintf("delegatee %s disappeared in BeginBlock although it signed / was not a voter", addr))
			} else {
				// jailed: every stake (after slashing) must now be unbonding with refund height H + period
				period := i64(Param(pre.Active, PLazyReward))
				for _, k := range d.Stakes {
					f, ok := post.Frozen[k.Hash]
					if ok && f.Owner == k.Owner && f.Refund != a.H+period {
						m.fail(s, "C12", "refund-height", fmt.Sprintf("stake %s force-released at block %d under unbonding period %d must stay locked until block %d, recorded refund height %d", k.Hash, a.H, period, a.H+period, f.Refund))
					}
					if !ok || f.Power != k.Power || f.Owner != k.Owner || f.Refund != a.H+period {
						kind := "jail-effect"
						// known finding shared with C02/C11/C12: the unbonding ledger is keyed by the staking tx hash and
						// all genesis stakes carry the zero hash; the kind is only assigned when ANOTHER stake really
						// shares this stake's key (bonded under a different delegatee or already unbonding for another owner)
						if pf, was := pre.Frozen[k.Hash]; was && pf.Owner != k.Owner {
							kind = "frozen-key-collision"
						}
						for addr2, d2 := range pre.Delegs {
							if addr2 == addr {
								continue
							}
							for _, k2 := range d2.Stakes {
								if k2.Hash == k.Hash {
									kind = "frozen-key-collision"
								}
							}
						}
						m.fail(s, "C14", kind, fmt.Sprintf("jailed delegatee %s: stake %s (power %d) not moved to unbonding with refund height %d (found %+v)", addr, k.Hash, k.Power, a.H+period, f))
					}
				}
				m.ok("C14.jail-effect")
			}
			continue
		}
		if len(pd.Stakes) != len(d.Stakes) {
			m.fail(s, "C14", "slash-exact", fmt.Sprintf("delegatee %s: expected %d stakes after evidence, found %d", addr, len(d.Stakes), len(pd.Stakes)))
			continue
		}
		for i := range d.Stakes {
			if pd.Stakes[i].Power != d.Stakes[i].Power || pd.Stakes[i].Hash != d.Stakes[i].Hash || pd.Stakes[i].Owner != d.Stakes[i].Owner {
				kind := "slash-frame"
				if targets[addr] {
					kind = "slash-exact"
				}
				m.fail(s, "C14", kind, fmt.Sprintf("delegatee %s stake %d: expected %+v after BeginBlock (slash ratio %d), found %+v", addr, i, d.Stakes[i], ratio, pd.Stakes[i]))
			}
		}
		m.ok("C14.slash")
	}
	for addr := range post.Delegs {
		if _, ok := pre.Delegs[addr]; !ok {
			m.fail(s, "C14", "slash-frame", "delegatee "+addr+" appeared in BeginBlock")
		}
	}
	// balances untouched by BeginBlock
	for k, ac := range pre.Accts {
		if pa, ok := post.Accts[k]; !ok || pa.Bal.Cmp(ac.Bal) != 0 || pa.Nonce != ac.Nonce {
			m.fail(s, "C14", "slash-frame", "account "+k+" changed in BeginBlock")
		}
	}
	// ---- C14 jailing rule: a non-signer is jailed iff window - missed(in [H-1-window, H-1]) < minSigned
	window, minSigned := i64(Param(pre.Active, PWindow)), i64(Param(pre.Active, PMinSigned))
	for addr := range absent {
		d, ok := pre.Delegs[addr]
		if !ok {
			continue
		}
		missed := int64(0)
		lo := a.H - 1 - window
		if lo < 0 {
			lo = 0
		}
		hs := append(append([]int64(nil), d.NotSigned...), a.H-1)
		seenH := map[int64]bool{}
		for _, h := range hs {
			if h >= lo && h <= a.H-1 && !seenH[h] {
				seenH[h] = true
				missed++
			}
		}
		_, still := post.Delegs[addr]
		shouldJail := window-missed < minSigned
		if shouldJail == still {
			m.fail(s, "C14", "jail-iff", fmt.Sprintf("validator %s missed %d of the last %d(+1) blocks, min signed %d: jailed=%v expected=%v", addr, missed, window, minSigned, !still, shouldJail))
		}
		m.ok("C14.jail-iff")
	}
	if m.frozenCollision(pre, post) {
		m.collisionSeen = true
	}
	m.slashed.Add(m.slashed, new(big.Int).Mul(big.NewInt(destroyed), e18))
	// ---- C13 issuance: expected per-account reward for signers, from the ledger version consensus used
	rpp := bigOf(Param(pre.Active, PRewardPerPower))
	if len(a.Votes) > 0 {
		expR := map[string]*big.Int{}
		early := a.H <= 4
		for _, v := range a.Votes {
			if !v.Signed {
				continue
			}
			hq := a.H - 4
			if hq < 1 {
				hq = 1
			}
			q := s.N.Query("delegatee", v.Addr, hq)
			if q.Code != 0 {
				continue
			}
			c := apphist.CanonQuery("delegatee", q)
			d := Parse(strings.TrimPrefix(c, "code=0 val=")).Delegs[appdrv.Hex(v.Addr)]
			if d == nil {
				continue
			}
			if d.Total != v.Power {
				if !early && s.GenesisEligible && !m.seen["C10/valset-mirror-block1"] && s.TMError == "" {
					m.fail(s, "C13", "vote-power-mismatch", fmt.Sprintf("vote power %d of %s differs from its ledger total %d at height %d", v.Power, appdrv.Hex(v.Addr), d.Total, hq))
				}
				continue
			}
			for _, k := range d.Stakes {
				if expR[k.Owner] == nil {
					expR[k.Owner] = new(big.Int)
				}
				expR[k.Owner].Add(expR[k.Owner], new(big.Int).Mul(big.NewInt(k.Power), rpp))
			}
		}
		owners := map[string]bool{}
		for k := range post.Rewards {
			owners[k] = true
		}
		for k := range expR {
			owners[k] = true
		}
		for k := range owners {
			before := new(big.Int)
			if r, ok := pre.Rewards[k]; ok {
				before = r.Cumulated
			}
			after := new(big.Int)
			if r, ok := post.Rewards[k]; ok {
				after = r.Cumulated
			}
			got := new(big.Int).Sub(after, before)
			want := expR[k]
			if want == nil {
				want = new(big.Int)
			}
			if got.Cmp(want) != 0 {
				kind := "issuance"
				if early {
					kind = "issuance-early-heights"
				}
				m.fail(s, "C13", kind, fmt.Sprintf("account %s earned %s in BeginBlock(%d), expected %s (reward per power %s)", k, got, a.H, want, rpp))
			}
			m.ok("C13.issuance")
		}
	}
}

func (m *Monitor) OnDeliver(s *apphist.Sim, bz []byte, preD, postD string, o appdrv.TxOut, tr *appdrv.EvmTrace) {
	tx := &ctrlertypes.Trx{}
	decodable := tx.Decode(bz) == nil
	hash := appdrv.Hex(tmtypes.Tx(bz).Hash())
	m.refBurn = nil
	if m.ref != nil {
		m.checkRef(s, Parse(postD), o, tr)
	}
	if o.Code != 0 {
		// ---- C05: a failed transaction has no effect; C04: nonces unchanged; C16: no fee
		if NonEmptyDump(preD) != NonEmptyDump(postD) {
			a, b := DiffTokens(NonEmptyDump(preD), NonEmptyDump(postD))
			m.fail(s, "C05", "failed-tx-effect", fmt.Sprintf("failed tx %s (%s) changed state: before-only=%s after-only=%s", hash, appdrv.ErrKind(o.Code, o.Log), short(strings.Join(a, " "), 600), short(strings.Join(b, " "), 600)))
		}
		m.ok("C05.failed-noop")
		return
	}
	if !decodable {
		m.fail(s, "C03", "undecodable-accepted", "an undecodable transaction succeeded")
		return
	}
	pre, post := Parse(preD), Parse(postD)
	from := appdrv.Hex(tx.From)
	if tx.Type == ctrlertypes.TRX_UNSTAKING && m.frozenCollision(pre, post) {
		m.collisionSeen = true // two stakes share an unbonding-ledger key from here on
	}
	// ---- C03: success requires a valid signature by the sender over this chain's pre-image
	if _, _, xerr := ctrlertypes.VerifyTrxRLP(tx, s.N.ChainID); xerr != nil {
		m.fail(s, "C03", "unsigned-effect", fmt.Sprintf("tx %s succeeded although its signature does not verify for sender %s on chain %q: %v", hash, from, s.N.ChainID, xerr))
	}
	m.ok("C03.sig")
	// ---- C04 nonce
	pa := pre.Accts[from]
	if pa == nil {
		m.fail(s, "C04", "nonce", "successful tx from an account that did not exist")
		return
	}
	if pa.Nonce != tx.Nonce {
		m.fail(s, "C04", "nonce", fmt.Sprintf("tx %s succeeded with nonce %d while the sender's nonce was %d", hash, tx.Nonce, pa.Nonce))
	}
	isEvm := tx.Type == ctrlertypes.TRX_CONTRACT || len(tr.Events) > 0
	for k, ac := range post.Accts {
		old := uint64(0)
		if p, ok := pre.Accts[k]; ok {
			old = p.Nonce
		}
		if k == from {
			if ac.Nonce != old+1 {
				m.fail(s, "C04", "nonce", fmt.Sprintf("successful tx %s moved the sender's nonce from %d to %d", hash, old, ac.Nonce))
			}
		} else if ac.Nonce != old && !(isEvm && ac.Nonce > old) {
			m.fail(s, "C04", "nonce", fmt.Sprintf("successful tx %s changed the nonce of another account %s: %d -> %d", hash, k, old, ac.Nonce))
		}
	}
	m.ok("C04.nonce")
	// ---- C16 fees
	price := bigOf(Param(pre.Active, PGasPrice))
	if tx.GasPrice.ToBig().Cmp(price) != 0 {
		m.fail(s, "C16", "admit-price", fmt.Sprintf("tx with gas price %s admitted, governance price is %s", tx.GasPrice.Dec(), price))
	}
	minFee := new(big.Int).Mul(bigOf(Param(pre.Active, PMinTrxGas)), price)
	if new(big.Int).Mul(new(big.Int).SetUint64(tx.Gas), price).Cmp(minFee) < 0 {
		m.fail(s, "C16", "admit-minfee", "tx below the minimum fee admitted")
	}
	if uint64(o.GasUsed) > tx.Gas {
		m.fail(s, "C16", "gas-used", fmt.Sprintf("gas used %d above gas limit %d", o.GasUsed, tx.Gas))
	}
	if !isEvm && uint64(o.GasUsed) != tx.Gas {
		m.fail(s, "C16", "gas-used", fmt.Sprintf("native tx used gas %d, limit %d", o.GasUsed, tx.Gas))
	}
	fee := new(big.Int).Mul(big.NewInt(o.GasUsed), price)
	m.blockFees.Add(m.blockFees, fee)
	// value effect on the total (C02) and the sender (C16)
	dTotal := new(big.Int).Sub(post.TotalValue(), pre.TotalValue())
	expTotal := new(big.Int).Neg(fee)
	if tx.Type == ctrlertypes.TRX_WITHDRAW {
		req := tx.Payload.(*ctrlertypes.TrxPayloadWithdraw).ReqAmt.ToBig()
		expTotal.Add(expTotal, req)
		m.withdrawn.Add(m.withdrawn, req)
		// ---- C13 withdraw exact
		cum := new(big.Int)
		if r, ok := pre.Rewards[from]; ok {
			cum = r.Cumulated
		}
		if req.Cmp(cum) > 0 {
			m.fail(s, "C13", "withdraw-over", fmt.Sprintf("withdrawal of %s succeeded with only %s withdrawable", req, cum))
		}
		after := new(big.Int)
		if r, ok := post.Rewards[from]; ok {
			after = r.Cumulated
		}
		if new(big.Int).Sub(cum, after).Cmp(req) != 0 {
			m.fail(s, "C13", "withdraw-exact", fmt.Sprintf("withdrawal of %s changed the withdrawable reward from %s to %s", req, cum, after))
		}
		want := new(big.Int).Sub(new(big.Int).Add(pa.Bal, req), fee)
		if post.Accts[from].Bal.Cmp(want) != 0 {
			m.fail(s, "C13", "withdraw-exact", fmt.Sprintf("withdrawal of %s: balance %s -> %s, expected %s", req, pa.Bal, post.Accts[from].Bal, want))
		}
		m.ok("C13.withdraw")
	}
	for _, c := range s.Contracts {
		if c.Prog.MayBurn {
			m.burnOK = true
		}
	}
	if isEvm {
		// the EVM may burn (self-destruct to self); everything else must be conserved
		burn := new(big.Int).Sub(expTotal, dTotal)
		if m.refBurn != nil {
			// the reference EVM run tells exactly how much this transaction burns
			if burn.Cmp(m.refBurn) != 0 {
				m.fail(s, "C02", "evm-value-mismatch", fmt.Sprintf("contract tx %s changed balances+stakes by %s (fee %s): %s vanished, the reference EVM run burns %s", hash, dTotal, fee, burn, m.refBurn))
			}
			m.refBurn = nil
		}
		if burn.Sign() < 0 {
			m.fail(s, "C16", "contract-charge", fmt.Sprintf("contract tx %s: all balances together changed by %s, a charge of exactly gas used x price = %s was due (somebody was credited inside the EVM or the sender under-charged)", hash, dTotal, fee))
			m.fail(s, "C02", "evm-creates-value", fmt.Sprintf("contract tx %s increased the total value by %s", hash, new(big.Int).Neg(burn)))
		} else if burn.Sign() > 0 {
			if !m.burnOK {
				m.fail(s, "C02", "evm-destroys-value", fmt.Sprintf("contract tx %s destroyed %s without a self-destruct", hash, burn))
			}
			m.evmBurn.Add(m.evmBurn, burn)
		}
	} else if dTotal.Cmp(expTotal) != 0 {
		kind := "tx-conservation"
		if tx.Type == ctrlertypes.TRX_UNSTAKING && m.frozenCollision(pre, post) {
			kind = "frozen-key-collision"
			m.collisionSeen = true
		}
		m.fail(s, "C02", kind, fmt.Sprintf("tx %s (type %d) changed balances+stakes by %s, expected %s (fee %s)", hash, tx.Type, dTotal, expTotal, fee))
	}
	m.ok("C02.tx")
	if !isEvm {
		want := new(big.Int).Sub(pa.Bal, fee)
		switch tx.Type {
		case ctrlertypes.TRX_TRANSFER:
			if from != appdrv.Hex(tx.To) {
				want.Sub(want, tx.Amount.ToBig())
			}
		case ctrlertypes.TRX_STAKING:
			want.Sub(want, tx.Amount.ToBig())
		case ctrlertypes.TRX_WITHDRAW:
			want.Add(want, tx.Payload.(*ctrlertypes.TrxPayloadWithdraw).ReqAmt.ToBig())
		}
		if post.Accts[from].Bal.Cmp(want) != 0 {
			m.fail(s, "C16", "native-charge", fmt.Sprintf("tx %s (type %d): sender balance %s -> %s, expected %s (gas %d x price %s)", hash, tx.Type, pa.Bal, post.Accts[from].Bal, want, tx.Gas, price))
		}
		m.ok("C16.native-charge")
	}
	// ---- C11/C12 stake creation, release
	switch tx.Type {
	case ctrlertypes.TRX_STAKING:
		pw := new(big.Int).Div(tx.Amount.ToBig(), e18).Int64()
		d := post.Delegs[appdrv.Hex(tx.To)]
		found := false
		if d != nil {
			for _, k := range d.Stakes {
				if k.Hash == hash && k.Owner == from && k.Power == pw {
					found = true
				}
			}
		}
		if !found {
			m.fail(s, "C11", "stake-not-recorded", fmt.Sprintf("successful staking tx %s (power %d) is not bonded under %s afterwards", hash, pw, appdrv.Hex(tx.To)))
		}
		m.created[hash] = Stake{Owner: from, To: appdrv.Hex(tx.To), Hash: hash, Power: pw}
		// every stake bonded before must still be there (delete / re-create within one block loses stakes)
		for addr, pd := range pre.Delegs {
			for _, k := range pd.Stakes {
				if !m.stakeSomewhere(post, k.Hash, k.Owner, addr) {
					m.fail(s, "C11", "stake-lost", fmt.Sprintf("staking tx %s made stake %s of %s (bonded under %s) disappear", hash, k.Hash, k.Owner, addr))
				}
			}
		}
	case ctrlertypes.TRX_UNSTAKING:
		h := appdrv.Hex(tx.Payload.(*ctrlertypes.TrxPayloadUnstaking).TxHash)
		var st *Stake
		if d := pre.Delegs[appdrv.Hex(tx.To)]; d != nil {
			for i := range d.Stakes {
				if d.Stakes[i].Hash == h {
					st = &d.Stakes[i]
					break
				}
			}
		}
		if st == nil {
			m.fail(s, "C12", "unstake-unknown", "successful unstaking of a stake that was not bonded")
			break
		}
		if st.Owner != from {
			m.fail(s, "C12", "unstake-not-owner", fmt.Sprintf("stake %s of %s released by %s", h, st.Owner, from))
		}
		period := i64(Param(pre.Active, PLazyReward))
		f := post.Frozen[h]
		if f == nil || f.Refund != s.Height+1+period || f.Power != st.Power || f.Owner != st.Owner {
			m.fail(s, "C12", "unstake-effect", fmt.Sprintf("released stake %s not unbonding with refund height %d: %+v", h, s.Height+1+period, f))
		}
		if d := post.Delegs[appdrv.Hex(tx.To)]; d != nil {
			for _, k := range d.Stakes {
				if k.Hash == h {
					m.fail(s, "C12", "released-has-power", "released stake still bonded")
				}
			}
		}
		// stakes of the pre-state must each still exist somewhere (bonded or unbonding)
		for addr, pd := range pre.Delegs {
			for _, k := range pd.Stakes {
				if !m.stakeSomewhere(post, k.Hash, k.Owner, addr) {
					kind := "stake-lost"
					if m.frozenCollision(pre, post) {
						kind = "frozen-key-collision"
					}
					m.fail(s, "C11", kind, fmt.Sprintf("unstaking tx %s made stake %s of %s (bonded under %s) disappear", hash, k.Hash, k.Owner, addr))
				}
			}
		}
		m.ok("C12.unstake")
	}
	m.checkDelegs(s, post, "after tx "+hash)
	// ---- C15 governance transactions
	switch tx.Type {
	case ctrlertypes.TRX_PROPOSAL:
		isVal := false
		for _, v := range pre.LastVals {
			if v.Addr == from {
				isVal = true
			}
		}
		if !isVal {
			m.fail(s, "C15", "proposer-not-validator", "proposal by "+from+" accepted, not a current validator")
		}
		p := post.Props[hash]
		if p == nil {
			m.fail(s, "C15", "proposal-not-recorded", "accepted proposal "+hash+" not recorded")
			break
		}
		if len(p.Voters) != len(pre.LastVals) {
			m.fail(s, "C15", "voters-snapshot", "voters differ from the validators at submission")
		}
		tot := int64(0)
		for _, v := range pre.LastVals {
			tot += v.Power
		}
		if p.Total != tot || p.Majority != tot*2/3 {
			m.fail(s, "C15", "voters-snapshot", fmt.Sprintf("total %d majority %d, expected %d %d", p.Total, p.Majority, tot, tot*2/3))
		}
		m.ok("C15.proposal")
	case ctrlertypes.TRX_VOTING:
		pl := tx.Payload.(*ctrlertypes.TrxPayloadVoting)
		p := pre.Props[appdrv.Hex(pl.TxHash)]
		if p == nil {
			m.fail(s, "C15", "vote-unknown", "vote on an unknown proposal accepted")
			break
		}
		ok := false
		for _, v := range p.Voters {
			if v.Addr == from {
				ok = true
			}
		}
		h := s.Height + 1
		if !ok || h < p.Start || h > p.End {
			m.fail(s, "C15", "vote-right", fmt.Sprintf("vote by %s at height %d accepted (voter=%v window %d..%d)", from, h, ok, p.Start, p.End))
		}
		m.ok("C15.vote")
	}
	for _, p := range post.Props {
		m.checkTally(s, p)
	}
}

func (m *Monitor) checkTally(s *apphist.Sim, p *Prop) {
	sums := make([]int64, len(p.Options))
	for _, v := range p.Voters {
		if v.Choice >= 0 && int(v.Choice) < len(sums) {
			sums[v.Choice] += v.Power
		}
	}
	for i, o := range p.Options {
		if o.Votes != sums[i] {
			m.fail(s, "C15", "tally", fmt.Sprintf("proposal %s option %d has %d votes, voters' choices sum to %d", p.Hash, i, o.Votes, sums[i]))
		}
	}
	m.ok("C15.tally")
}

func (m *Monitor) stakeSomewhere(st *State, hash, owner, deleg string) bool {
	if d := st.Delegs[deleg]; d != nil {
		for _, k := range d.Stakes {
			if k.Hash == hash && k.Owner == owner {
				return true
			}
		}
	}
	if f := st.Frozen[hash]; f != nil && f.Owner == owner {
		return true
	}
	return false
}

// frozenCollision: the stakes released between pre and post share an unbonding-ledger key with
// each other or with an entry that was already unbonding (the ledger is keyed by stake hash).
func (m *Monitor) frozenCollision(pre, post *State) bool {
	cnt := map[string]int{}
	for h := range pre.Frozen {
		cnt[h]++
	}
	for addr, d := range pre.Delegs {
		for _, k := range d.Stakes {
			bonded := false
			if pd := post.Delegs[addr]; pd != nil {
				for _, q := range pd.Stakes {
					if q.Hash == k.Hash && q.Owner == k.Owner {
						bonded = true
					}
				}
			}
			if !bonded {
				cnt[k.Hash]++
			}
		}
	}
	for _, n := range cnt {
		if n > 1 {
			return true
		}
	}
	return false
}

func (m *Monitor) OnEnd(s *apphist.Sim, preD, postD string, ups []appdrv.ValUp) {
	pre, post := Parse(preD), Parse(postD)
	h := s.Height + 1
	// ---- C12 refunds + C16 proposer credit: EndBlock changes balances only by refunds and the fee hand-over
	committed := Parse(m.committed[s.Height])
	expDelta := map[string]*big.Int{}
	add := func(k string, v *big.Int) {
		if expDelta[k] == nil {
			expDelta[k] = new(big.Int)
		}
		expDelta[k].Add(expDelta[k], v)
	}
	refunded := map[string]bool{}
	if m.committed[s.Height] != "" {
		for hash, f := range committed.Frozen {
			if f.Refund <= h {
				add(f.Owner, new(big.Int).Mul(big.NewInt(f.Power), e18))
				refunded[hash] = true
			}
		}
	}
	for hash, f := range pre.Frozen {
		_, still := post.Frozen[hash]
		if refunded[hash] && still {
			m.fail(s, "C12", "refund-missing", fmt.Sprintf("unbonding stake %s (refund height %d) still locked after block %d", hash, f.Refund, h))
		}
		if !refunded[hash] && !still {
			m.fail(s, "C12", "refund-early", fmt.Sprintf("unbonding stake %s (refund height %d) released at block %d", hash, f.Refund, h))
		}
	}
	if s.Cur != nil && len(s.Cur.Proposer) > 0 && m.blockFees.Sign() > 0 {
		add(appdrv.Hex(s.Cur.Proposer), m.blockFees)
	} else {
		m.feeBurn.Add(m.feeBurn, m.blockFees)
	}
	keys := map[string]bool{}
	for k := range pre.Accts {
		keys[k] = true
	}
	for k := range post.Accts {
		keys[k] = true
	}
	for k := range keys {
		b0, b1 := new(big.Int), new(big.Int)
		if a := pre.Accts[k]; a != nil {
			b0 = a.Bal
		}
		if a := post.Accts[k]; a != nil {
			b1 = a.Bal
		}
		got := new(big.Int).Sub(b1, b0)
		want := expDelta[k]
		if want == nil {
			want = new(big.Int)
		}
		if got.Cmp(want) != 0 {
			prop, kind := "C12", "refund-amount"
			if s.Cur != nil && k == appdrv.Hex(s.Cur.Proposer) {
				prop, kind = "C16", "proposer-credit"
			}
			m.fail(s, prop, kind, fmt.Sprintf("EndBlock(%d) changed the balance of %s by %s, expected %s (refunds due + fee hand-over %s)", h, k, got, want, m.blockFees))
		}
	}
	m.ok("C12.endblock-balances")
	// stakes bonded are untouched by EndBlock
	for k, d := range pre.Delegs {
		if pd := post.Delegs[k]; pd == nil || pd.Raw != d.Raw {
			m.fail(s, "C11", "endblock-frame", "delegatee "+k+" changed in EndBlock")
		}
	}
	// ---- C15: parameters scheduled in this EndBlock must come from a frozen proposal with a 2/3 majority whose applying height is reached
	if post.Pending != "-" {
		ok := false
		for _, p := range committed.FProps {
			if p.Applying <= h && p.Major != nil && p.Major.Votes >= p.Majority && p.OptType == 257 {
				ok = true
			}
		}
		if !ok {
			m.fail(s, "C15", "change-without-majority", fmt.Sprintf("parameters scheduled at block %d without a matured majority proposal", h))
		}
		m.pendingChg = true
	}
	for hash, p := range post.FProps {
		if _, was := pre.FProps[hash]; !was {
			if p.Major == nil || p.Major.Votes < p.Majority || p.End >= h {
				m.fail(s, "C15", "frozen-without-majority", fmt.Sprintf("proposal %s frozen at block %d: end %d major %+v majority %d", hash, h, p.End, p.Major, p.Majority))
			}
		}
	}
	// ---- C10: the validator set as Tendermint sees it mirrors the ledger
	m.checkValset(s, h, pre)
}

func (m *Monitor) checkValset(s *apphist.Sim, h int64, pre *State) {
	if !s.GenesisEligible {
		return // the property quantifies over genesis validator sets that satisfy the limits
	}
	if s.TMError != "" {
		if m.tmKind == "" {
			kind := "tm-reject"
			if strings.Contains(s.TMError, "empty set") {
				kind = "tm-reject-empty-set"
			} else if strings.Contains(s.TMError, "to remove") {
				// removal of a non-member: known when the "validator" is a delegatee left with zero power
				// (it was announced with power 0 before, i.e. already removed from the consensus set)
				lower := strings.ToLower(s.TMError)
				for addr, d := range Parse(m.committed[s.Height]).Delegs {
					if d.Total == 0 && strings.Contains(lower, "validator "+addr+" to remove") {
						kind = "tm-reject-zero-power-delegatee"
					}
				}
				for _, v := range pre.LastVals {
					if v.Power == 0 && strings.Contains(lower, "validator "+v.Addr+" to remove") {
						kind = "tm-reject-zero-power-delegatee"
					}
				}
			}
			m.tmKind = kind
		}
		m.fail(s, "C10", m.tmKind, s.TMError)
		return
	}
	if h < 2 || m.committed[h-1] == "" {
		return
	}
	st := Parse(m.committed[h-1])
	minStake := bigOf(Param(pre.Active, PMinValStake))
	minPower := new(big.Int).Div(minStake, e18).Int64()
	maxVals := int(i64(Param(pre.Active, PMaxVals)))
	var el []*Deleg
	for _, d := range st.Delegs {
		if d.Self >= minPower {
			el = append(el, d)
		}
	}
	sort.Slice(el, func(i, j int) bool {
		if el[i].Total != el[j].Total {
			return el[i].Total > el[j].Total
		}
		if len(el[i].Stakes) != len(el[j].Stakes) {
			return len(el[i].Stakes) > len(el[j].Stakes)
		}
		return el[i].Addr > el[j].Addr
	})
	if len(el) > maxVals && maxVals >= 0 {
		el = el[:maxVals]
	}
	want := map[string]int64{}
	for _, d := range el {
		if d.Total > 0 { // power 0 means "not a validator" for the consensus engine
			want[d.Addr] = d.Total
		}
	}
	got := map[string]int64{}
	for _, v := range s.ValSets[h+2] {
		got[appdrv.Hex(v.Addr)] = v.Power
	}
	same := len(want) == len(got)
	for k, v := range want {
		if got[k] != v {
			same = false
		}
	}
	if !same {
		kind := "valset-mirror"
		if m.block1Changed {
			kind = "valset-mirror-block1"
		}
		m.fail(s, "C10", kind, fmt.Sprintf("after block %d Tendermint's validator set is %v, the ledger committed by block %d says %v", h, got, h-1, want))
	}
	m.ok("C10.mirror")
}

func (m *Monitor) OnCommit(s *apphist.Sim, post string, hash []byte) {
	st := Parse(post)
	m.committed[s.Height] = post
	if s.Height == 1 {
		// did block 1 change the eligible validator set w.r.t. genesis? (known quirk: never announced)
		g := Parse(m.genesisDump)
		for k, d := range g.Delegs {
			if pd := st.Delegs[k]; pd == nil || pd.Total != d.Total {
				m.block1Changed = true
			}
		}
		for k := range st.Delegs {
			if g.Delegs[k] == nil {
				m.block1Changed = true
			}
		}
	}
	// ---- C02 conservation after every block
	lhs := st.TotalValue()
	if os.Getenv("VERIF_DEBUG") != "" {
		fmt.Fprintf(os.Stderr, "block %d total=%s withdrawn=%s slashed=%s feeBurn=%s frozen=%d\n", s.Height, lhs, m.withdrawn, m.slashed, m.feeBurn, len(st.Frozen))
	}
	rhs := new(big.Int).Add(m.genesis, m.withdrawn)
	rhs.Sub(rhs, m.slashed).Sub(rhs, m.feeBurn).Sub(rhs, m.evmBurn)
	if lhs.Cmp(rhs) != 0 && !m.seen["C02/frozen-key-collision"] && !m.seen["C11/frozen-key-collision"] {
		kind := "conservation"
		if m.collisionSeen {
			kind = "frozen-key-collision"
		}
		m.fail(s, "C02", kind, fmt.Sprintf("after block %d balances+bonded+unbonding = %s, expected genesis %s + withdrawn %s - slashed %s - burnt fees %s - evm burn %s = %s (difference %s)",
			s.Height, lhs, m.genesis, m.withdrawn, m.slashed, m.feeBurn, m.evmBurn, rhs, new(big.Int).Sub(lhs, rhs)))
	}
	m.ok("C02.block")
	m.checkDelegs(s, st, "committed")
	// ---- C11 total-power query equals the sum
	q := s.N.Query("stakes/total_power", nil, 0)
	sum := int64(0)
	for _, d := range st.Delegs {
		sum += d.Total
	}
	if q.Code != 0 || string(q.Value) != fmt.Sprint(sum) {
		m.fail(s, "C11", "total-power-query", fmt.Sprintf("total_power query answers %q, delegatee totals sum to %d", string(q.Value), sum))
	}
	// ---- C15 parameter changes only when scheduled; active equals the query
	if st.Active != m.lastActive && !m.pendingChg {
		m.fail(s, "C15", "unscheduled-change", fmt.Sprintf("active parameters changed at commit %d without a scheduled proposal: %s -> %s", s.Height, m.lastActive, st.Active))
	}
	if st.Active != m.lastActive {
		m.ok("C15.params-changed")
	}
	m.pendingChg = false
	m.lastActive = st.Active
	gq := s.N.Query("gov_params", nil, 0)
	if c := apphist.CanonQuery("gov_params", gq); c != "code=0 val=G:"+st.Active {
		m.fail(s, "C15", "active-vs-query", fmt.Sprintf("active parameters %s but the governance query answers %s", st.Active, c))
	}
	m.ok("C15.active-query")
}

func (m *Monitor) OnRestart(s *apphist.Sim, infoOK bool) {
	if !infoOK {
		m.fail(s, "C07", "restart-info", "restarted node reports a different height / app hash")
	}
}

// ---- C19: a query at height h returns what block h committed, and never changes
func (m *Monitor) OnQuery(s *apphist.Sim, path string, data []byte, h int64, canon string) {
	eff := h
	if h <= 0 {
		eff = s.Height
	}
	key := fmt.Sprintf("%s|%s|%d", path, appdrv.Hex(data), eff)
	if eff >= 1 && eff <= s.Height {
		if old, ok := m.answers[key]; ok && old != canon && path != "stakes/voting_power" {
			m.fail(s, "C19", "answer-changed", fmt.Sprintf("query %s answered %s earlier and %s now", key, short(old, 300), short(canon, 300)))
		}
		m.answers[key] = canon
		m.ok("C19.stable")
	}
	if eff > s.Height {
		if !strings.HasPrefix(canon, "code=1000") && path != "nosuchpath" {
			m.fail(s, "C19", "future-height", fmt.Sprintf("query %s beyond the latest height %d answered %s", key, s.Height, short(canon, 200)))
		}
		return
	}
	d := m.committed[eff]
	if d == "" {
		return
	}
	st := Parse(d)
	want := ""
	switch path {
	case "account":
		if a := st.Accts[appdrv.Hex(data)]; a != nil {
			want = fmt.Sprintf("code=0 val=A:%s:%d:%s:%s:%s:%s", a.Addr, a.Nonce, a.Bal, a.Code, a.Name, a.Doc)
		} else {
			want = fmt.Sprintf("code=0 val=A:%s:0:0:-:-:-", appdrv.Hex(data))
		}
	case "delegatee":
		if dd := st.Delegs[appdrv.Hex(data)]; dd != nil {
			want = "code=0 val=" + dd.Raw
		} else {
			want = "code=1000 val=-"
		}
	case "stakes/total_power":
		sum := int64(0)
		for _, dd := range st.Delegs {
			sum += dd.Total
		}
		want = fmt.Sprintf("code=0 val=%d", sum)
	case "reward":
		if r := st.Rewards[appdrv.Hex(data)]; r != nil {
			want = fmt.Sprintf("code=0 val=R:%s:%s:%s:%s:%s:%d", r.Addr, r.Issued, r.Withdrawn, r.Slashed, r.Cumulated, r.Height)
		} else {
			want = "code=1000 val=-"
		}
	case "gov_params":
		want = "code=0 val=G:" + st.Stored
	case "proposal":
		if len(data) > 0 {
			if p := st.Props[appdrv.Hex(data)]; p != nil {
				want = "code=0 val=" + p.Raw
			} else if p := st.FProps[appdrv.Hex(data)]; p != nil {
				want = "code=0 val=" + p.Raw
			} else {
				want = "code=1000 val=-"
			}
		}
	}
	if want != "" && want != canon {
		m.fail(s, "C19", "not-committed-value", fmt.Sprintf("query %s answered %s, block %d committed %s", key, short(canon, 400), eff, short(want, 400)))
	}
	m.ok("C19.committed")
}
