// Package appmon: implementation-level monitors of the application properties, written
// directly from the property statements and independent of the Lean model. They observe the
// real application through canonical dumps (appdrv.Dump) taken around every ABCI call.
package appmon

import (
	"math/big"
	"sort"
	"strconv"
	"strings"
)

type Acct struct {
	Addr  string
	Nonce uint64
	Bal   *big.Int
	Code  string
	Name  string
	Doc   string
}

func (a *Acct) Empty() bool {
	return a.Nonce == 0 && a.Bal.Sign() == 0 && a.Code == "-" && a.Name == "-" && a.Doc == "-"
}

type Stake struct {
	Owner, To, Hash string
	Power           int64
	Start, Refund   int64
}

type Deleg struct {
	Addr, Pub            string
	Self, Total, Slashed int64
	Stakes               []Stake
	NotSigned            []int64
	Raw                  string
}

type Reward struct {
	Addr                                  string
	Issued, Withdrawn, Slashed, Cumulated *big.Int
	Height                                int64
}

type Voter struct {
	Addr   string
	Power  int64
	Choice int64
}

type Opt struct {
	Raw   string
	Votes int64
}

type Prop struct {
	Frozen                                         bool
	Hash                                           string
	Start, End, Applying, Total, Majority, OptType int64
	Voters                                         []Voter
	Options                                        []Opt
	Major                                          *Opt
	Raw                                            string
}

type State struct {
	Accts    map[string]*Acct
	Delegs   map[string]*Deleg
	Frozen   map[string]*Stake // by hash
	Rewards  map[string]*Reward
	Props    map[string]*Prop
	FProps   map[string]*Prop
	Stored   string // G:
	Active   string // GA:
	Pending  string // GN:
	LastVals []Voter
	Raw      string
}

func i64(s string) int64 { n, _ := strconv.ParseInt(s, 10, 64); return n }
func bigOf(s string) *big.Int {
	n, ok := new(big.Int).SetString(s, 10)
	if !ok {
		return new(big.Int)
	}
	return n
}

func parseStake(parts []string) Stake {
	return Stake{Owner: parts[0], To: parts[1], Hash: parts[2], Power: i64(parts[3]), Start: i64(parts[4]), Refund: i64(parts[5])}
}

func parseProp(f []string, frozen bool, raw string) *Prop {
	p := &Prop{Frozen: frozen, Hash: f[1], Start: i64(f[2]), End: i64(f[3]), Applying: i64(f[4]), Total: i64(f[5]), Majority: i64(f[6]), OptType: i64(f[7]), Raw: raw}
	if f[8] != "-" {
		for _, v := range strings.Split(f[8], ";") {
			x := strings.Split(v, "/")
			p.Voters = append(p.Voters, Voter{Addr: x[0], Power: i64(x[1]), Choice: i64(x[2])})
		}
	}
	if f[9] != "-" {
		for _, v := range strings.Split(f[9], ";") {
			x := strings.Split(v, "/")
			p.Options = append(p.Options, Opt{Raw: x[0], Votes: i64(x[1])})
		}
	}
	if f[10] != "-" {
		x := strings.Split(f[10], "/")
		p.Major = &Opt{Raw: x[0], Votes: i64(x[1])}
	}
	return p
}

// Parse reads a canonical dump.
func Parse(dump string) *State {
	s := &State{Accts: map[string]*Acct{}, Delegs: map[string]*Deleg{}, Frozen: map[string]*Stake{}, Rewards: map[string]*Reward{},
		Props: map[string]*Prop{}, FProps: map[string]*Prop{}, Raw: dump}
	for _, tok := range strings.Fields(dump) {
		f := strings.Split(tok, ":")
		switch f[0] {
		case "A":
			s.Accts[f[1]] = &Acct{Addr: f[1], Nonce: uint64(i64(f[2])), Bal: bigOf(f[3]), Code: f[4], Name: f[5], Doc: f[6]}
		case "D":
			d := &Deleg{Addr: f[1], Pub: f[2], Self: i64(f[3]), Total: i64(f[4]), Slashed: i64(f[5]), Raw: tok}
			if f[6] != "-" {
				for _, st := range strings.Split(f[6], ";") {
					d.Stakes = append(d.Stakes, parseStake(strings.Split(st, "/")))
				}
			}
			if f[7] != "-" {
				for _, h := range strings.Split(f[7], ";") {
					d.NotSigned = append(d.NotSigned, i64(h))
				}
			}
			s.Delegs[f[1]] = d
		case "F":
			st := parseStake(f[1:])
			s.Frozen[st.Hash] = &st
		case "R":
			s.Rewards[f[1]] = &Reward{Addr: f[1], Issued: bigOf(f[2]), Withdrawn: bigOf(f[3]), Slashed: bigOf(f[4]), Cumulated: bigOf(f[5]), Height: i64(f[6])}
		case "P":
			s.Props[f[1]] = parseProp(f, false, tok)
		case "FP":
			s.FProps[f[1]] = parseProp(f, true, tok)
		case "G":
			s.Stored = f[1]
		case "GA":
			s.Active = f[1]
		case "GN":
			s.Pending = f[1]
		case "V":
			if f[1] != "-" {
				for _, v := range strings.Split(f[1], ";") {
					x := strings.Split(v, "/")
					s.LastVals = append(s.LastVals, Voter{Addr: x[0], Power: i64(x[1])})
				}
			}
		}
	}
	return s
}

// Param returns field i of a parameter line (order of appdrv.ParamsLine).
func Param(line string, i int) string {
	f := strings.Split(line, ",")
	if i < len(f) {
		return f[i]
	}
	return "0"
}

const (
	PMaxVals = iota
	PMinValStake
	PMinDelStake
	PRewardPerPower
	PLazyReward
	PLazyApplying
	PGasPrice
	PMinTrxGas
	PMaxTrxGas
	PMaxBlockGas
	PMinVoting
	PMaxVoting
	PMinSelfRatio
	PMaxUpd
	PMaxIndi
	PSlash
	PWindow
	PMinSigned
	PVersion
)

var e18 = new(big.Int).Exp(big.NewInt(10), big.NewInt(18), nil)

// TotalValue = balances + bonded + unbonding (in fons).
func (s *State) TotalValue() *big.Int {
	t := new(big.Int)
	for _, a := range s.Accts {
		t.Add(t, a.Bal)
	}
	p := big.NewInt(0)
	for _, d := range s.Delegs {
		for _, st := range d.Stakes {
			p.Add(p, big.NewInt(st.Power))
		}
	}
	for _, f := range s.Frozen {
		p.Add(p, big.NewInt(f.Power))
	}
	return t.Add(t, p.Mul(p, e18))
}

// NonEmptyDump renders the dump without empty account records (absent == empty for every query).
func NonEmptyDump(dump string) string {
	var out []string
	for _, tok := range strings.Fields(dump) {
		if strings.HasPrefix(tok, "A:") {
			f := strings.Split(tok, ":")
			if f[2] == "0" && f[3] == "0" && f[4] == "-" && f[5] == "-" && f[6] == "-" {
				continue
			}
		}
		out = append(out, tok)
	}
	return strings.Join(out, " ")
}

// DiffTokens lists tokens present in only one of two dumps.
func DiffTokens(a, b string) (onlyA, onlyB []string) {
	am, bm := map[string]bool{}, map[string]bool{}
	for _, x := range strings.Fields(a) {
		am[x] = true
	}
	for _, x := range strings.Fields(b) {
		bm[x] = true
	}
	for x := range am {
		if !bm[x] {
			onlyA = append(onlyA, x)
		}
	}
	for x := range bm {
		if !am[x] {
			onlyB = append(onlyB, x)
		}
	}
	sort.Strings(onlyA)
	sort.Strings(onlyB)
	return
}
