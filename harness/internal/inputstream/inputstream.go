// Package inputstream: C09 raw-input robustness. A real application with some history is fed
// hostile transaction bytes (CheckTx and DeliverTx) and hostile queries under recover(); every input
// must be answered, the node must stay usable, and the response must agree with the Lean model
// (the decoded struct is what the model sees; undecodable bytes are one model input).
package inputstream

import (
	"fmt"
	"os"
	"strings"
	"time"

	"github.com/holiman/uint256"
	ctrlertypes "github.com/rigochain/rigo-go/ctrlers/types"
	rtypes "github.com/rigochain/rigo-go/types"
	"github.com/rigochain/rigo-go/types/crypto"
	tmrpccore "github.com/tendermint/tendermint/rpc/core"
	sm "github.com/tendermint/tendermint/state"
	tmtypes "github.com/tendermint/tendermint/types"
	"google.golang.org/protobuf/proto"
	"verifharness/internal/apphist"
	"verifharness/internal/appstream"
	"verifharness/internal/common"
	"verifharness/internal/rng"
)

// fakeStore answers tmrpccore.Block for the heights the application has committed.
type fakeStore struct {
	sm.BlockStore
	height func() int64
}

func (f *fakeStore) Base() int64   { return 1 }
func (f *fakeStore) Height() int64 { return f.height() }
func (f *fakeStore) Size() int64   { return f.height() }
func (f *fakeStore) LoadBlock(h int64) *tmtypes.Block {
	if h < 1 || h > f.height() {
		return nil
	}
	return &tmtypes.Block{Header: tmtypes.Header{Height: h, Time: time.Unix(1700000000+h, 0)}}
}
func (f *fakeStore) LoadBlockMeta(h int64) *tmtypes.BlockMeta {
	if h < 1 || h > f.height() {
		return nil
	}
	return &tmtypes.BlockMeta{Header: tmtypes.Header{Height: h, Time: time.Unix(1700000000+h, 0)}}
}

func hostileBytes(r *rng.R, n int) []byte {
	switch r.Intn(4) {
	case 0:
		return nil
	case 1:
		b := make([]byte, n)
		for i := range b {
			b[i] = 0xff
		}
		return b
	case 2:
		return make([]byte, n)
	default:
		return r.Bytes(n)
	}
}

// hostileTx derives malformed transaction bytes from a well-formed one.
func hostileTx(r *rng.R, s *apphist.Sim, valid []byte) []byte {
	switch r.Pick(3, 3, 3, 8, 2) {
	case 0:
		return r.Bytes(r.Intn(200))
	case 1:
		if len(valid) > 1 {
			return valid[:r.Intn(len(valid))]
		}
		return valid
	case 2:
		b := append([]byte(nil), valid...)
		for k := r.Range(1, 4); k > 0 && len(b) > 0; k-- {
			i := r.Intn(len(b) * 8)
			b[i/8] ^= 1 << uint(i%8)
		}
		return b
	case 3:
		pm := &ctrlertypes.TrxProto{}
		if proto.Unmarshal(valid, pm) != nil {
			return valid
		}
		lens := []int{0, 1, 19, 20, 21, 31, 32, 33, 64, 100}
		for k := r.Range(1, 3); k > 0; k-- {
			switch r.Intn(12) {
			case 0:
				pm.From = hostileBytes(r, lens[r.Intn(len(lens))])
			case 1:
				pm.To = hostileBytes(r, lens[r.Intn(len(lens))])
			case 2:
				pm.XAmount = hostileBytes(r, []int{0, 1, 31, 32, 33, 40}[r.Intn(6)])
			case 3:
				pm.XGasPrice = hostileBytes(r, []int{0, 1, 31, 32, 33}[r.Intn(5)])
			case 4:
				pm.Gas = []uint64{0, 1, 1 << 63, 1<<63 - 1, 1<<64 - 1}[r.Intn(5)]
			case 5:
				pm.Type = []int32{-1, 0, 9, 100, 1<<31 - 1, -1 << 31, int32(r.Range(1, 8))}[r.Intn(7)]
			case 6:
				pm.XPayload = r.Bytes(r.Intn(80))
				if r.Chance(40) {
					// an otherwise well-formed typed transaction whose payload bytes are EMPTY (the handlers of SETDOC and
					// UNSTAKING rely on the decoder always giving a typed transaction its payload object)
					pm.XPayload = nil
					pm.Type = []int32{ctrlertypes.TRX_SETDOC, ctrlertypes.TRX_UNSTAKING, ctrlertypes.TRX_WITHDRAW, ctrlertypes.TRX_VOTING, ctrlertypes.TRX_PROPOSAL, ctrlertypes.TRX_CONTRACT}[r.Intn(6)]
				}
			case 7:
				pm.Sig = hostileBytes(r, []int{0, 1, 64, 65, 66, 130}[r.Intn(6)])
			case 8:
				pm.Nonce = []uint64{0, 1<<64 - 1, 1 << 63}[r.Intn(3)]
			case 9:
				pm.Time = []int64{0, -1, 1<<63 - 1, -1 << 63}[r.Intn(4)]
			case 10:
				pm.Version = uint32(r.U64())
			case 11:
				// hostile payload objects of the right kind
				switch r.Intn(6) {
				case 0:
					pm.Type = ctrlertypes.TRX_UNSTAKING
					pm.XPayload, _ = (&ctrlertypes.TrxPayloadUnstaking{TxHash: hostileBytes(r, lens[r.Intn(len(lens))])}).Encode()
				case 1:
					pm.Type = ctrlertypes.TRX_VOTING
					pm.XPayload, _ = (&ctrlertypes.TrxPayloadVoting{TxHash: hostileBytes(r, lens[r.Intn(len(lens))]), Choice: []int32{-1, -1 << 31, 1<<31 - 1, 0, 7}[r.Intn(5)]}).Encode()
				case 2:
					pm.Type = ctrlertypes.TRX_PROPOSAL
					hs := []int64{0, -1, 1, 1<<63 - 1, -1 << 63, s.Height + 2}
					var opts [][]byte
					for k := r.Intn(3); k > 0; k-- {
						opts = append(opts, [][]byte{nil, []byte("{}"), []byte(`{"maxValidatorCnt":"-1"}`), []byte(`{"gasPrice":""}`), []byte(`{"minValidatorStake":"115792089237316195423570985008687907853269984665640564039457584007913129639935"}`), r.Bytes(9)}[r.Intn(6)])
					}
					pm.XPayload, _ = (&ctrlertypes.TrxPayloadProposal{Message: "x", StartVotingHeight: hs[r.Intn(6)], VotingPeriodBlocks: hs[r.Intn(6)], ApplyingHeight: hs[r.Intn(6)],
						OptType: []int32{257, 512, 0, -1}[r.Intn(4)], Options: opts}).Encode()
				case 3:
					pm.Type = ctrlertypes.TRX_WITHDRAW
					pm.XPayload, _ = (&ctrlertypes.TrxPayloadWithdraw{ReqAmt: new(uint256.Int).SetAllOne()}).Encode()
				case 4:
					pm.Type = ctrlertypes.TRX_CONTRACT
					pm.XPayload, _ = (&ctrlertypes.TrxPayloadContract{Data: r.Bytes(r.Intn(3000))}).Encode()
				case 5:
					pm.Type = ctrlertypes.TRX_SETDOC
					pm.XPayload, _ = (&ctrlertypes.TrxPayloadSetDoc{Name: strings.Repeat("n", r.Intn(5000)), URL: strings.Repeat("u", r.Intn(5000))}).Encode()
				}
			}
		}
		// half of the time re-sign the hostile fields with the sender's real key, so that DeliverTx gets past
		// the signature check and reaches the per-type validation and execution with them
		if r.Chance(50) {
			tx := &ctrlertypes.Trx{}
			if b0, err := proto.Marshal(pm); err == nil && tx.Decode(b0) == nil {
				for _, k := range s.Keys {
					if string(k.Addr) == string(tx.From) {
						tx.Sig = nil
						if pre, xerr := ctrlertypes.PreImageToSignTrxRLP(tx, s.N.ChainID); xerr == nil {
							if sig, err := crypto.Sign(pre, k.Prv); err == nil {
								pm.Sig = sig
							}
						}
					}
				}
			}
		}
		b, _ := proto.Marshal(pm)
		return b
	default:
		return append(append([]byte(nil), valid...), r.Bytes(r.Range(1, 20))...)
	}
}

func kindOf(out string) string {
	for _, w := range strings.Fields(out) {
		if strings.HasPrefix(w, "kind=") {
			return w
		}
	}
	return out
}

func Run(seed uint64, tier, work, driver string, replay []string) *common.Result {
	res := common.NewResult("inputs", seed, tier)
	res.Rule = "hostile transaction bytes (random, truncated, bit-flipped, protobuf fields with extreme values and wrong lengths, hostile payloads of every type) " +
		"through CheckTx and DeliverTx, and hostile queries (every path x data lengths x heights incl. negative, beyond latest, 2^62) on a real node with history; " +
		"distinct_nontrivial counts distinct (call, decoded type, result kind) triples"
	r := rng.New(seed)
	nh, perH := 3, 400
	if tier == "thorough" {
		nh, perH = 25, 3000
	}
	distinct := common.Distinct{}
	for hi := 0; hi < nh; hi++ {
		hw := fmt.Sprintf("%s/i%d", work, hi)
		_ = os.MkdirAll(hw, 0755)
		hr := r.Fork()
		s, err := apphist.NewSim(seed*100+uint64(hi), hr, hw, apphist.Options{MaxBlocks: 6, TxPerBlock: 4, InvalidPct: 10, WithEVM: true})
		if err != nil {
			res.Error = err.Error()
			return res
		}
		tmrpccore.SetEnvironment(&tmrpccore.Environment{BlockStore: &fakeStore{height: func() int64 { return s.N.Height }}})
		s.Init()
		res.Histories++
		violate := func(kind, detail string) {
			for _, v := range res.Violations {
				if v.Kind == kind {
					return
				}
			}
			res.Violations = append(res.Violations, common.Violation{Property: "C09", Kind: kind, Detail: detail, Ops: s.ReplayLines()})
		}
		// some ordinary history first
		for b := 0; b < 4 && s.N.Dead == ""; b++ {
			if !s.Begin() {
				break
			}
			for i := hr.Intn(4); i > 0; i-- {
				bz := s.GenTx()
				o, _ := s.Deliver(bz)
				s.After(bz, o)
			}
			if !s.End() || !s.Commit() {
				break
			}
		}
		inBlock := false
		for i := 0; i < perH && s.N.Dead == ""; i++ {
			if !inBlock {
				if !s.Begin() {
					break
				}
				inBlock = true
			}
			switch hr.Pick(5, 4, 4) {
			case 0:
				bz := hostileTx(hr, s, s.GenTx())
				o, rec := s.Deliver(bz)
				s.After(bz, o)
				res.Count("deliver/" + kindOf(rec.Out))
				distinct.Add("deliver/" + rec.Out)
				if o.Panic != "" {
					violate("panic-delivertx", "DeliverTx panicked: "+o.Panic)
					s.N.Dead = o.Panic
				}
			case 1:
				bz := hostileTx(hr, s, s.GenTx())
				o, rec := s.Check(bz)
				res.Count("check/" + kindOf(rec.Out))
				distinct.Add("check/" + rec.Out)
				if o.Panic != "" {
					violate("panic-checktx", "CheckTx panicked: "+o.Panic)
				}
			case 2:
				paths := []string{"account", "delegatee", "stakes", "stakes/total_power", "stakes/voting_power", "reward", "proposal", "gov_params", "vm_call", "", "x/y"}
				path := paths[hr.Intn(len(paths))]
				lens := []int{0, 1, 19, 20, 21, 32, 33, 39, 40, 41, 100}
				data := hostileBytes(hr, lens[hr.Intn(len(lens))])
				if hr.Chance(30) {
					data = s.Keys[hr.Intn(len(s.Keys))].Addr
					if path == "vm_call" {
						to := s.Keys[hr.Intn(len(s.Keys))].Addr
						if len(s.Contracts) > 0 && hr.Chance(70) {
							to = s.Contracts[hr.Intn(len(s.Contracts))].Addr
						}
						data = append(append(append([]byte(nil), data...), to...), hr.Bytes(hr.Intn(40))...)
					}
				}
				h := []int64{-1, 0, 1, s.N.Height, s.N.Height + 1, 1 << 62, -1 << 63}[hr.Intn(7)]
				pre := ""
				if path == "vm_call" {
					pre = s.N.Dump()
				}
				o := s.N.Query(path, data, h)
				res.Evaluations++
				key := fmt.Sprintf("query/%s/len%d/%d", path, len(data), o.Code)
				res.Count(fmt.Sprintf("query/%s/%d", path, o.Code))
				distinct.Add(key)
				if o.Panic != "" {
					violate("panic-query", fmt.Sprintf("Query path=%q data=%x height=%d panicked: %s", path, data, h, o.Panic))
				}
				if path == "vm_call" && s.N.Dump() != pre {
					res.Violations = append(res.Violations, common.Violation{Property: "C17", Kind: "vmcall-changes-state", Detail: "a read-only vm_call changed the state", Ops: s.ReplayLines()})
				}
			}
			if i%40 == 39 {
				if !s.End() || !s.Commit() {
					break
				}
				inBlock = false
				// the node must still be usable: a well-formed transfer succeeds
				if !s.Begin() {
					break
				}
				inBlock = true
				k := s.Keys[0]
				for _, kk := range s.Keys {
					if _, bal, ok := s.AcctOf(kk.Addr); ok && bal.Cmp(apphist.Rigo(2)) > 0 {
						k = kk
						break
					}
				}
				bz := s.TransferFrom(k, rtypes.Address(hr.Bytes(20)), uint256.NewInt(1))
				o, _ := s.Deliver(bz)
				if o.Code != 0 && o.Panic == "" {
					if _, bal, ok := s.AcctOf(k.Addr); ok && bal.Cmp(apphist.Rigo(1)) > 0 {
						violate("not-usable", "a well-formed transfer fails after hostile inputs: "+o.Log)
					}
				}
			}
		}
		if inBlock && s.N.Dead == "" {
			if s.End() {
				s.Commit()
			}
		}
		if s.N.Dead != "" {
			violate("consensus-panic", "consensus call panicked: "+s.N.Dead)
		}
		s.N.Close()
		// model correspondence on the decoded inputs
		lines := appstream.ModelLines(s.Recs)
		mout, err := common.RunDriver(driver, "app", lines)
		_ = os.RemoveAll(hw)
		if err != nil {
			res.Error = err.Error()
			return res
		}
		for j, rec := range s.Recs {
			res.Evaluations++
			if j+1 < len(mout) && mout[j+1] != rec.Out {
				d := common.Disagreement{History: hi, Index: j, Op: rec.Line, Impl: rec.Out + " note=" + rec.Note, Model: mout[j+1], Ops: s.ReplayLines()}
				if len(d.Op) > 400 {
					d.Op = d.Op[:400]
				}
				if rec.Kind == "dump" {
					d.Impl, d.Model = "dump", "dump differs"
				}
				res.Disagreements = append(res.Disagreements, d)
				break
			}
		}
		if len(res.Samples) < 4 {
			for _, rec := range s.Recs {
				if rec.Kind == "tx" && strings.Contains(rec.Out, "code=5") && len(res.Samples) < 4 {
					l := rec.Line
					if len(l) > 300 {
						l = l[:300]
					}
					res.Samples = append(res.Samples, l+" => "+rec.Out)
				}
			}
		}
		if len(res.Disagreements) >= 3 {
			break
		}
	}
	res.DistinctNontrivial = len(distinct)
	return res
}
