// Package commitstream: C08 crash-point enumeration. For every block of a generated history the
// data directory is copied right after each durable write of Commit (verif hook), and at random
// points outside Commit; every copy is reopened (= process death at that instant + restart), its
// Info is checked against Tendermint's handshake rule, the interrupted block is replayed, and the
// outcome is compared with the Lean commit-log model's prediction and with the node that never crashed.
package commitstream

import (
	"encoding/hex"
	"fmt"
	"os"
	"os/exec"
	"strings"

	"github.com/rigochain/rigo-go/libs/verifhook"
	"verifharness/internal/appdrv"
	"verifharness/internal/apphist"
	"verifharness/internal/common"
	"verifharness/internal/rng"
)

type snap struct {
	dir    string
	k      int // durable writes completed (0 = outside commit)
	where  string
	labels []string
}

func cpDir(src, dst string) error {
	_ = os.RemoveAll(dst)
	out, err := exec.Command("cp", "-r", src, dst).CombinedOutput()
	if err != nil {
		return fmt.Errorf("cp: %v %s", err, out)
	}
	return nil
}

// blockRecs returns the records of the block in execution (since the last commit).
func blockRecs(recs []*apphist.Rec) []*apphist.Rec {
	last := -1
	for i, r := range recs {
		if r.Kind == "commit" {
			last = i
		}
	}
	var out []*apphist.Rec
	for _, r := range recs[last+1:] {
		if r.Kind == "begin" || (r.Kind == "tx" && r.Mode == "d") || r.Kind == "end" {
			out = append(out, r)
		}
	}
	return out
}

// recoverAndReplay opens the snapshot and plays the role of Tendermint's handshake.
// prevH/prevHash: last fully committed block before the interrupted one; newHash: the hash the
// uncrashed node computed for the interrupted block; blk: the interrupted block's records (with outputs).
func recoverAndReplay(dir string, prevH int64, prevHash, newHash []byte, blk []*apphist.Rec, chainID string, gen *appdrv.Genesis) (outcome, detail string) {
	n, err := appdrv.OpenNode(dir)
	if err != nil {
		return "panic", "open: " + err.Error()
	}
	defer n.Close()
	n.ChainID = chainID
	switch {
	case n.Height == prevH+1:
		if hex.EncodeToString(n.AppHash) != hex.EncodeToString(newHash) {
			return "mismatch", fmt.Sprintf("reports height %d with app hash %x, the uncrashed node has %x", n.Height, n.AppHash, newHash)
		}
		return "ok-ahead", ""
	case n.Height == prevH:
		if prevH > 0 && hex.EncodeToString(n.AppHash) != hex.EncodeToString(prevHash) {
			return "mismatch", fmt.Sprintf("reports height %d with app hash %x, expected %x", n.Height, n.AppHash, prevHash)
		}
	default:
		return "mismatch", fmt.Sprintf("reports height %d, the consensus engine can reconcile only %d or %d", n.Height, prevH, prevH+1)
	}
	if n.Height == 0 {
		// nothing committed yet: the consensus engine runs InitChain again
		if p := n.InitChain(gen); p != "" {
			return "panic", p
		}
	}
	// replay the interrupted block
	for _, r := range blk {
		switch r.Kind {
		case "begin":
			o := n.BeginBlock(r.Begin.H, r.Begin.T, r.Begin.Proposer, r.Begin.Votes, r.Begin.Evid)
			if o.Panic != "" {
				return "panic", o.Panic
			}
			if got := apphist.BeginOutLine(o); got != r.Out {
				return "mismatch", "replayed BeginBlock answers " + got + ", originally " + r.Out
			}
		case "tx":
			o := n.DeliverTx(r.Tx)
			if o.Panic != "" {
				return "panic", o.Panic
			}
			_, tx := appdrv.DescribeTx(r.Tx, chainID)
			if got := apphist.TxOutLine(o, tx != nil); got != r.Out {
				return "mismatch", "replayed DeliverTx answers " + got + ", originally " + r.Out
			}
		case "end":
			ups, p := n.EndBlock(prevH + 1)
			if p != "" {
				return "panic", p
			}
			if got := "vu=" + appdrv.ValUpsLine(ups); got != r.Out {
				return "mismatch", "replayed EndBlock answers " + got + ", originally " + r.Out
			}
		}
	}
	h, p := n.Commit()
	if p != "" {
		return "panic", p
	}
	if hex.EncodeToString(h) != hex.EncodeToString(newHash) {
		return "mismatch", fmt.Sprintf("replayed block commits app hash %x, the uncrashed node %x", h, newHash)
	}
	return "ok-replay", ""
}

// Prop selects which property's violations are reported: "C08" (default) every unrecoverable crash point;
// "C10": only crash points OUTSIDE Commit whose replay returns different validator updates than the
// uncrashed node (the reported validator set must survive a crash and replay of the block).
var Prop = "C08"

func Run(seed uint64, tier, work, driver string, replay []string) *common.Result {
	res := common.NewResult("commit", seed, tier)
	res.Rule = "every durable write of every Commit (verif hook) and random points outside Commit of generated histories are crash points: " +
		"the data directory copied at that instant is reopened, Info checked, the interrupted block replayed and compared with the uncrashed node " +
		"and with the Lean commit-log model; distinct_nontrivial counts distinct (write label, position, outcome) triples"
	r := rng.New(seed)
	nh, maxBlocks := 3, 7
	if tier == "thorough" {
		nh, maxBlocks = 20, 24
	}
	distinct := common.Distinct{}
	var lines, real []string
	var meta []string
	for hi := 0; hi < nh; hi++ {
		hw := fmt.Sprintf("%s/c%d", work, hi)
		_ = os.MkdirAll(hw, 0755)
		s, err := apphist.NewSim(seed*100+uint64(hi), r.Fork(), hw, apphist.Options{MaxBlocks: maxBlocks, TxPerBlock: 4, InvalidPct: 15, WithEVM: true})
		if err != nil {
			res.Error = err.Error()
			return res
		}
		s.Init()
		res.Histories++
		nblocks := r.Range(maxBlocks/2+1, maxBlocks)
		// the first history of every run is LONG: records that are only written every 10th block (the reward-ledger
		// root folded into the app hash) exist, and the crash points are taken in the blocks after the 10th
		long := hi == 0 && replay == nil
		if long && nblocks < 14 {
			nblocks = r.Range(12, 14)
		}
		var prevHash []byte
		for b := 0; b < nblocks && s.N.Dead == ""; b++ {
			var snaps []snap
			sparse := long && b < 9 // early blocks of the long history: only a few crash points
			take := func(k int, where string, labels []string) {
				if sparse && k%5 != 1 {
					return
				}
				d := fmt.Sprintf("%s/snap%d", hw, len(snaps))
				if err := cpDir(s.N.Root, d); err == nil {
					snaps = append(snaps, snap{dir: d, k: k, where: where, labels: append([]string(nil), labels...)})
				}
			}
			if !s.Begin() {
				break
			}
			if r.Chance(40) {
				take(0, "after BeginBlock", nil)
			}
			ntx := r.Intn(5)
			for i := 0; i < ntx; i++ {
				bz := s.GenTx()
				o, _ := s.Deliver(bz)
				s.After(bz, o)
				if r.Chance(25) {
					take(0, "after DeliverTx", nil)
				}
			}
			if !s.End() {
				break
			}
			if r.Chance(40) {
				take(0, "after EndBlock", nil)
			}
			blk := blockRecs(s.Recs)
			prevH := s.Height
			var labels []string
			verifhook.DurableWriteHook = func(name string) {
				labels = append(labels, name)
				take(len(labels), "after durable write "+name, nil)
			}
			ok := s.Commit()
			verifhook.DurableWriteHook = nil
			if !ok {
				break
			}
			newHash := s.N.AppHash
			for _, sn := range snaps {
				outcome, detail := recoverAndReplay(sn.dir, prevH, prevHash, newHash, blk, s.N.ChainID, s.Gen)
				_ = os.RemoveAll(sn.dir)
				res.Evaluations++
				lab := "outside-commit"
				if sn.k > 0 {
					lab = labels[sn.k-1]
				}
				key := fmt.Sprintf("%s@%d/%d:%s", lab, sn.k, len(labels), outcome)
				res.Count(key)
				distinct.Add(key)
				lines = append(lines, fmt.Sprintf("crash labels=%s k=%d", strings.Join(labels, ","), sn.k))
				real = append(real, outcome)
				meta = append(meta, fmt.Sprintf("history %d block %d crash %s (k=%d of %d): %s %s", hi, prevH+1, sn.where, sn.k, len(labels), outcome, detail))
				if Prop == "C10" {
					if sn.k == 0 && outcome == "mismatch" && strings.Contains(detail, "EndBlock answers") {
						dup := false
						for _, v := range res.Violations {
							if v.Kind == "valset-after-crash-replay" {
								dup = true
							}
						}
						if !dup {
							res.Violations = append(res.Violations, common.Violation{Property: "C10", Kind: "valset-after-crash-replay",
								Detail: meta[len(meta)-1], Ops: append(s.ReplayLines(), fmt.Sprintf("# crash point: %s, then restart and replay of the block", sn.where))})
						}
					}
					continue
				}
				if outcome != "ok-replay" && outcome != "ok-ahead" {
					kind := "crash-unsafe-midcommit"
					if sn.k == 0 || sn.k >= len(labels)-1 {
						kind = "crash-unsafe-boundary"
					}
					if outcome == "mismatch" {
						kind = "crash-" + outcome + "-" + map[bool]string{true: "boundary", false: "midcommit"}[sn.k == 0 || sn.k >= len(labels)-1]
					}
					dup := false
					for _, v := range res.Violations {
						if v.Kind == kind {
							dup = true
						}
					}
					if !dup {
						res.Violations = append(res.Violations, common.Violation{Property: "C08", Kind: kind,
							Detail: meta[len(meta)-1], Ops: append(s.ReplayLines(), fmt.Sprintf("# crash point: %s (k=%d of %d writes: %s)", sn.where, sn.k, len(labels), strings.Join(labels, ",")))})
					}
				}
			}
			prevHash = newHash
			if len(res.Samples) < 4 && len(meta) > 0 {
				res.Samples = append(res.Samples, meta[len(meta)-1])
			}
		}
		s.N.Close()
		_ = os.RemoveAll(hw)
	}
	res.DistinctNontrivial = len(distinct)
	// Lean model prediction for every crash point
	if len(lines) > 0 && Prop != "C10" {
		mout, err := common.RunDriver(driver, "commit", lines)
		if err != nil {
			res.Error = err.Error()
			return res
		}
		for i := range lines {
			want := real[i]
			if want == "mismatch" {
				want = "panic" // the model has one "not recoverable" outcome
			}
			if i < len(mout) && mout[i] != want {
				res.Disagreements = append(res.Disagreements, common.Disagreement{History: 0, Index: i, Op: lines[i], Impl: real[i] + " (" + meta[i] + ")", Model: mout[i], Ops: []string{lines[i]}})
				if len(res.Disagreements) >= 5 {
					break
				}
			}
		}
	}
	return res
}
