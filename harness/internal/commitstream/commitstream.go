// Package commitstream: C08 crash-point enumeration. For every block of a generated history the
// data directory is copied right after each durable write of Commit (verif hook), and at random
// points outside Commit; every copy is reopened (= process death at that instant + restart), its
// Info is checked against Tendermint's handshake rule, the interrupted block is replayed, and the
// outcome is compared with the Lean commit-log model's prediction and with the node that never crashed.
package commitstream

import (
	"encoding/hex"
	"fmt"
	"os"
	"strings"

	"github.com/rigochain/rigo-go/libs/verifhook"
	"verifharness/internal/appdrv"
	"verifharness/internal/apphist"
	"verifharness/internal/common"
	"verifharness/internal/rng"
)

type snap struct {
	dir    string
	k      int // durable writes completed (0 = outside commit)
	where  string
	labels []string
}

func cpDir(src, dst string) error {
	return common.CopyDirStable(src, dst)
}

// blockRecs returns the records of the block in execution (since the last commit).
func blockRecs(recs []*apphist.Rec) []*apphist.Rec {
	last := -1
	for i, r := range recs {
		if r.Kind == "commit" {
			last = i
		}
	}
	var out []*apphist.Rec
	for _, r := range recs[last+1:] {
		if r.Kind == "begin" || (r.Kind == "tx" && r.Mode == "d") || r.Kind == "end" {
			out = append(out, r)
		}
	}
	return out
}

// recoverAndReplay opens the snapshot and plays the role of Tendermint's handshake.
// prevH/prevHash: last fully committed block before the interrupted one; newHash: the hash the
// uncrashed node computed for the interrupted block; blk: the interrupted block's records (with outputs).
func recoverAndReplay(dir string, prevH int64, prevHash, newHash []byte, blk []*apphist.Rec, chainID string, gen *appdrv.Genesis, keep **appdrv.Node) (outcome, detail string) {
	n, err := appdrv.OpenNode(dir)
	if err != nil {
		return "panic", "open: " + err.Error()
	}
	defer func() {
		if keep != nil && (outcome == "ok-replay" || outcome == "ok-ahead") {
			*keep = n // the caller keeps this recovered node alive as a follower
			return
		}
		n.Close()
	}()
	n.ChainID = chainID
	switch {
	case n.Height == prevH+1:
		if hex.EncodeToString(n.AppHash) != hex.EncodeToString(newHash) {
			return "mismatch", fmt.Sprintf("reports height %d with app hash %x, the uncrashed node has %x", n.Height, n.AppHash, newHash)
		}
		return "ok-ahead", ""
	case n.Height == prevH:
		if prevH > 0 && hex.EncodeToString(n.AppHash) != hex.EncodeToString(prevHash) {
			return "mismatch", fmt.Sprintf("reports height %d with app hash %x, expected %x", n.Height, n.AppHash, prevHash)
		}
	default:
		return "mismatch", fmt.Sprintf("reports height %d, the consensus engine can reconcile only %d or %d", n.Height, prevH, prevH+1)
	}
	if n.Height == 0 {
		// nothing committed yet: the consensus engine runs InitChain again
		if p := n.InitChain(gen); p != "" {
			return "panic", p
		}
	}
	// replay the interrupted block
	if oc, dt := replayBlock(n, prevH+1, newHash, blk, chainID); oc != "" {
		return oc, dt
	}
	return "ok-replay", ""
}

// replayBlock feeds one recorded block to node n and compares every answer and the committed app hash with the
// uncrashed node's; returns ("", "") when everything agrees.
func replayBlock(n *appdrv.Node, h int64, newHash []byte, blk []*apphist.Rec, chainID string) (outcome, detail string) {
	for _, r := range blk {
		switch r.Kind {
		case "begin":
			o := n.BeginBlock(r.Begin.H, r.Begin.T, r.Begin.Proposer, r.Begin.Votes, r.Begin.Evid)
			if o.Panic != "" {
				return "panic", o.Panic
			}
			if got := apphist.BeginOutLine(o); got != r.Out {
				return "mismatch", "replayed BeginBlock answers " + got + ", originally " + r.Out
			}
		case "tx":
			o := n.DeliverTx(r.Tx)
			if o.Panic != "" {
				return "panic", o.Panic
			}
			_, tx := appdrv.DescribeTx(r.Tx, chainID)
			if got := apphist.TxOutLine(o, tx != nil); got != r.Out {
				return "mismatch", "replayed DeliverTx answers " + got + ", originally " + r.Out
			}
		case "end":
			ups, p := n.EndBlock(h)
			if p != "" {
				return "panic", p
			}
			if got := "vu=" + appdrv.ValUpsLine(ups); got != r.Out {
				return "mismatch", "replayed EndBlock answers " + got + ", originally " + r.Out
			}
		}
	}
	hh, p := n.Commit()
	if p != "" {
		return "panic", p
	}
	if hex.EncodeToString(hh) != hex.EncodeToString(newHash) {
		return "mismatch", fmt.Sprintf("replayed block %d commits app hash %x, the uncrashed node %x", h, hh, newHash)
	}
	return "", ""
}

// follower: a node recovered from a crash point that keeps following the rest of the history ("…and the node
// continues with exactly the application hashes of a node that never crashed")
type follower struct {
	n     *appdrv.Node
	dir   string
	where string
}

// Prop selects which property's violations are reported: "C08" (default) every unrecoverable crash point;
// "C10": only crash points OUTSIDE Commit whose replay returns different validator updates than the
// uncrashed node (the reported validator set must survive a crash and replay of the block).
var Prop = "C08"

func Run(seed uint64, tier, work, driver string, replay []string) *common.Result {
	res := common.NewResult("commit", seed, tier)
	res.Rule = "every durable write of every Commit (verif hook) and random points outside Commit of generated histories are crash points: " +
		"the data directory copied at that instant is reopened, Info checked, the interrupted block replayed and compared with the uncrashed node " +
		"and with the Lean commit-log model; distinct_nontrivial counts distinct (write label, position, outcome) triples"
	r := rng.New(seed)
	nh, maxBlocks := 3, 7
	if tier == "thorough" {
		nh, maxBlocks = 20, 24
	}
	distinct := common.Distinct{}
	var lines, real []string
	var meta []string
	for hi := 0; hi < nh; hi++ {
		hw := fmt.Sprintf("%s/c%d", work, hi)
		_ = os.MkdirAll(hw, 0755)
		s, err := apphist.NewSim(seed*100+uint64(hi), r.Fork(), hw, apphist.Options{MaxBlocks: maxBlocks, TxPerBlock: 4, InvalidPct: 15, WithEVM: true})
		if err != nil {
			res.Error = err.Error()
			return res
		}
		s.Init()
		res.Histories++
		nblocks := r.Range(maxBlocks/2+1, maxBlocks)
		// the first history of every run is LONG: records that are only written every 10th block (the reward-ledger
		// root folded into the app hash) exist, and the crash points are taken in the blocks after the 10th
		long := hi == 0 && replay == nil
		if long && nblocks < 14 {
			nblocks = r.Range(12, 14)
		}
		var prevHash []byte
		var followers []*follower
		snapSeq := 0
		for b := 0; b < nblocks && s.N.Dead == ""; b++ {
			var snaps []snap
			sparse := long && b < 9 // early blocks of the long history: only a few crash points
			take := func(k int, where string, labels []string) {
				if sparse && k%5 != 1 {
					return
				}
				snapSeq++
				d := fmt.Sprintf("%s/snap%d", hw, snapSeq) // unique: recovered followers keep living in their snapshot directory
				if err := cpDir(s.N.Root, d); err == nil {
					snaps = append(snaps, snap{dir: d, k: k, where: where, labels: append([]string(nil), labels...)})
				}
			}
			if !s.Begin() {
				break
			}
			if r.Chance(40) {
				take(0, "after BeginBlock", nil)
			}
			ntx := r.Intn(5)
			for i := 0; i < ntx; i++ {
				bz := s.GenTx()
				o, _ := s.Deliver(bz)
				s.After(bz, o)
				if r.Chance(25) {
					take(0, "after DeliverTx", nil)
				}
			}
			if !s.End() {
				break
			}
			if r.Chance(40) {
				take(0, "after EndBlock", nil)
			}
			blk := blockRecs(s.Recs)
			prevH := s.Height
			var labels []string
			verifhook.DurableWriteHook = func(name string) {
				labels = append(labels, name)
				take(len(labels), "after durable write "+name, nil)
			}
			ok := s.Commit()
			verifhook.DurableWriteHook = nil
			if !ok {
				break
			}
			newHash := s.N.AppHash
			// recovered nodes of earlier crash points follow the history
			if Prop != "C10" {
				alive := followers[:0]
				for _, f := range followers {
					oc, dt := replayBlock(f.n, prevH+1, newHash, blk, s.N.ChainID)
					res.Evaluations++
					res.Count("follower-block:" + map[bool]string{true: "ok", false: oc}[oc == ""])
					if oc == "" {
						alive = append(alive, f)
						continue
					}
					dup := false
					for _, v := range res.Violations {
						if v.Kind == "crash-recovered-node-diverges" {
							dup = true
						}
					}
					if !dup {
						res.Violations = append(res.Violations, common.Violation{Property: "C08", Kind: "crash-recovered-node-diverges",
							Detail: fmt.Sprintf("history %d: the node recovered from a crash %s followed the chain and diverged at block %d: %s %s", hi, f.where, prevH+1, oc, dt),
							Ops:    append(s.ReplayLines(), "# crash point: "+f.where+", then restart, replay and continued execution")})
					}
					f.n.Close()
					_ = os.RemoveAll(f.dir)
				}
				followers = alive
			}
			for _, sn := range snaps {
				var keep **appdrv.Node
				var kept *appdrv.Node
				if Prop != "C10" && len(followers) < 2 && (sn.k == 0 || sn.k >= len(labels)) && r.Chance(35) {
					keep = &kept
				}
				outcome, detail := recoverAndReplay(sn.dir, prevH, prevHash, newHash, blk, s.N.ChainID, s.Gen, keep)
				if kept != nil {
					followers = append(followers, &follower{n: kept, dir: sn.dir, where: fmt.Sprintf("%s of block %d", sn.where, prevH+1)})
				} else {
					_ = os.RemoveAll(sn.dir)
				}
				res.Evaluations++
				lab := "outside-commit"
				if sn.k > 0 {
					lab = labels[sn.k-1]
				}
				key := fmt.Sprintf("%s@%d/%d:%s", lab, sn.k, len(labels), outcome)
				res.Count(key)
				distinct.Add(key)
				lines = append(lines, fmt.Sprintf("crash labels=%s k=%d", strings.Join(labels, ","), sn.k))
				real = append(real, outcome)
				meta = append(meta, fmt.Sprintf("history %d block %d crash %s (k=%d of %d): %s %s", hi, prevH+1, sn.where, sn.k, len(labels), outcome, detail))
				if Prop == "C10" {
					if sn.k == 0 && outcome == "mismatch" && strings.Contains(detail, "EndBlock answers") {
						dup := false
						for _, v := range res.Violations {
							if v.Kind == "valset-after-crash-replay" {
								dup = true
							}
						}
						if !dup {
							res.Violations = append(res.Violations, common.Violation{Property: "C10", Kind: "valset-after-crash-replay",
								Detail: meta[len(meta)-1], Ops: append(s.ReplayLines(), fmt.Sprintf("# crash point: %s, then restart and replay of the block", sn.where))})
						}
					}
					continue
				}
				if outcome != "ok-replay" && outcome != "ok-ahead" {
					kind := "crash-unsafe-midcommit"
					if sn.k == 0 || sn.k >= len(labels)-1 {
						kind = "crash-unsafe-boundary"
					}
					if outcome == "mismatch" {
						kind = "crash-" + outcome + "-" + map[bool]string{true: "boundary", false: "midcommit"}[sn.k == 0 || sn.k >= len(labels)-1]
					}
					dup := false
					for _, v := range res.Violations {
						if v.Kind == kind {
							dup = true
						}
					}
					if !dup {
						res.Violations = append(res.Violations, common.Violation{Property: "C08", Kind: kind,
							Detail: meta[len(meta)-1], Ops: append(s.ReplayLines(), fmt.Sprintf("# crash point: %s (k=%d of %d writes: %s)", sn.where, sn.k, len(labels), strings.Join(labels, ",")))})
					}
				}
			}
			prevHash = newHash
			if len(res.Samples) < 4 && len(meta) > 0 {
				res.Samples = append(res.Samples, meta[len(meta)-1])
			}
		}
		for _, f := range followers {
			f.n.Close()
			_ = os.RemoveAll(f.dir)
		}
		s.N.Close()
		_ = os.RemoveAll(hw)
	}
	res.DistinctNontrivial = len(distinct)
	// Lean model prediction for every crash point
	if len(lines) > 0 && Prop != "C10" {
		mout, err := common.RunDriver(driver, "commit", lines)
		if err != nil {
			res.Error = err.Error()
			return res
		}
		for i := range lines {
			want := real[i]
			if want == "mismatch" {
				want = "panic" // the model has one "not recoverable" outcome
			}
			if i < len(mout) && mout[i] != want {
				res.Disagreements = append(res.Disagreements, common.Disagreement{History: 0, Index: i, Op: lines[i], Impl: real[i] + " (" + meta[i] + ")", Model: mout[i], Ops: []string{lines[i]}})
				if len(res.Disagreements) >= 5 {
					break
				}
			}
		}
	}
	return res
}
