// Package appdrv drives the real node.RigoApp in-process: genesis, blocks, transactions,
// queries, restart (on a copy of the data directory) and canonical state dumps.
package appdrv

import (
	"crypto/ecdsa"
	"crypto/sha256"
	"encoding/hex"
	"encoding/json"
	"fmt"
	"os"
	"path/filepath"
	"sort"
	"strings"
	"time"

	ethcrypto "github.com/ethereum/go-ethereum/crypto"
	"github.com/holiman/uint256"
	cfg "github.com/rigochain/rigo-go/cmd/config"
	ctrlertypes "github.com/rigochain/rigo-go/ctrlers/types"
	"github.com/rigochain/rigo-go/genesis"
	"github.com/rigochain/rigo-go/node"
	rtypes "github.com/rigochain/rigo-go/types"
	"github.com/rigochain/rigo-go/types/crypto"
	abcitypes "github.com/tendermint/tendermint/abci/types"
	tmjson "github.com/tendermint/tendermint/libs/json"
	"github.com/tendermint/tendermint/libs/log"
	tmcrypto "github.com/tendermint/tendermint/proto/tendermint/crypto"
	tmproto "github.com/tendermint/tendermint/proto/tendermint/types"
	"verifharness/internal/common"
)

// Key is a deterministic secp256k1 key.
type Key struct {
	Prv  *ecdsa.PrivateKey
	Pub  []byte // 33-byte compressed
	Addr rtypes.Address
}

func NewKey(seed uint64, idx int) *Key {
	for n := 0; ; n++ {
		h := sha256.Sum256([]byte(fmt.Sprintf("verif-key-%d-%d-%d", seed, idx, n)))
		prv, err := ethcrypto.ToECDSA(h[:])
		if err != nil {
			continue
		}
		pub := ethcrypto.CompressPubkey(&prv.PublicKey)
		addr, _ := crypto.PubBytes2Addr(pub)
		return &Key{Prv: prv, Pub: pub, Addr: addr}
	}
}

func Hex(b []byte) string {
	if len(b) == 0 {
		return "-"
	}
	return hex.EncodeToString(b)
}

// Params is a governance parameter set in the order used by the line protocol.
type Params struct {
	MaxValidatorCnt, LazyRewardBlocks, LazyApplyingBlocks              int64
	MinValidatorStake, MinDelegatorStake, RewardPerPower, GasPrice     string // decimal, "" = nil
	MinTrxGas, MaxTrxGas, MaxBlockGas                                  uint64
	MinVoting, MaxVoting                                               int64
	MinSelfStakeRatio, MaxUpdatableStakeRatio, MaxIndividualStakeRatio int64
	SlashRatio, SignedBlocksWindow, MinSignedBlocks, Version           int64
}

func (p *Params) JSON() []byte {
	m := map[string]interface{}{
		"version": fmt.Sprint(p.Version), "maxValidatorCnt": fmt.Sprint(p.MaxValidatorCnt),
		"minValidatorStake": p.MinValidatorStake, "minDelegatorStake": p.MinDelegatorStake,
		"rewardPerPower": p.RewardPerPower, "lazyRewardBlocks": fmt.Sprint(p.LazyRewardBlocks),
		"lazyApplyingBlocks": fmt.Sprint(p.LazyApplyingBlocks), "gasPrice": p.GasPrice,
		"minTrxGas": fmt.Sprint(p.MinTrxGas), "maxTrxGas": fmt.Sprint(p.MaxTrxGas), "maxBlockGas": fmt.Sprint(p.MaxBlockGas),
		"minVotingPeriodBlocks": fmt.Sprint(p.MinVoting), "maxVotingPeriodBlocks": fmt.Sprint(p.MaxVoting),
		"minSelfStakeRatio": fmt.Sprint(p.MinSelfStakeRatio), "maxUpdatableStakeRatio": fmt.Sprint(p.MaxUpdatableStakeRatio),
		"maxIndividualStakeRatio": fmt.Sprint(p.MaxIndividualStakeRatio), "slashRatio": fmt.Sprint(p.SlashRatio),
		"signedBlocksWindow": fmt.Sprint(p.SignedBlocksWindow), "minSignedBlocks": fmt.Sprint(p.MinSignedBlocks),
	}
	bz, _ := json.Marshal(m)
	return bz
}

// ParamsLine renders a GovParams object in line-protocol order (nil uint256 = "nil").
func ParamsLine(g *ctrlertypes.GovParams) string {
	if g == nil {
		return "-"
	}
	// GovParams getters panic on nil big fields; go through JSON which renders nil as "".
	bz, err := g.MarshalJSON()
	if err != nil {
		return "err"
	}
	m := map[string]interface{}{}
	_ = json.Unmarshal(bz, &m)
	f := func(k string) string {
		v, ok := m[k]
		if !ok {
			return "0"
		}
		s := fmt.Sprint(v)
		return s
	}
	u := func(k string) string {
		s := f(k)
		if s == "" {
			return "nil"
		}
		return s
	}
	return strings.Join([]string{f("maxValidatorCnt"), u("minValidatorStake"), u("minDelegatorStake"), u("rewardPerPower"),
		f("lazyRewardBlocks"), f("lazyApplyingBlocks"), u("gasPrice"), f("minTrxGas"), f("maxTrxGas"), f("maxBlockGas"),
		f("minVotingPeriodBlocks"), f("maxVotingPeriodBlocks"), f("minSelfStakeRatio"), f("maxUpdatableStakeRatio"),
		f("maxIndividualStakeRatio"), f("slashRatio"), f("signedBlocksWindow"), f("minSignedBlocks"), f("version")}, ",")
}

type Holder struct {
	Addr rtypes.Address
	Bal  *uint256.Int
}

type GenVal struct {
	Key   *Key
	Power int64
}

type Genesis struct {
	ChainID string
	Params  *Params
	Holders []Holder
	Vals    []GenVal
}

// Node is one running application instance over one data directory.
type Node struct {
	Root    string
	App     *node.RigoApp
	Cfg     *cfg.Config
	ChainID string
	Height  int64 // last committed
	AppHash []byte
	InBlock bool
	Dead    string // non-empty once a consensus call panicked
}

func OpenNode(root string) (n *Node, err error) {
	defer func() {
		if e := recover(); e != nil {
			err = fmt.Errorf("open panicked: %v", e)
		}
	}()
	c := cfg.DefaultConfig()
	c.SetRoot(root)
	if err := os.MkdirAll(c.DBDir(), 0755); err != nil {
		return nil, err
	}
	app := node.NewRigoApp(c, log.NewNopLogger())
	n = &Node{Root: root, App: app, Cfg: c}
	info := app.Info(abcitypes.RequestInfo{})
	n.Height = info.LastBlockHeight
	n.AppHash = info.LastBlockAppHash
	n.ChainID = c.ChainID
	return n, nil
}

// CloneRestart copies the data directory and opens a new application on the copy
// (RigoApp.Stop leaks LevelDB locks, so a directory cannot be reopened in-process).
func (n *Node) CloneRestart(newRoot string) (*Node, error) {
	if err := common.CopyDirStable(n.Root, newRoot); err != nil {
		return nil, err
	}
	// LOCK files of the still-open source are just files; goleveldb takes a fresh flock on the copy
	return OpenNode(newRoot)
}

// Close stops the application and releases every store.
func (n *Node) Close() {
	if n.App != nil {
		n.App.VerifCloseAll()
		n.App = nil
	}
}

func (n *Node) guard(what string, f func()) (panicked string) {
	defer func() {
		if e := recover(); e != nil {
			panicked = fmt.Sprintf("%s: %v", what, e)
		}
	}()
	f()
	return ""
}

func (n *Node) InitChain(g *Genesis) string {
	var hs []*genesis.GenesisAssetHolder
	for _, h := range g.Holders {
		hs = append(hs, &genesis.GenesisAssetHolder{Address: h.Addr, Balance: h.Bal})
	}
	gp := &ctrlertypes.GovParams{}
	if err := tmjson.Unmarshal(g.Params.JSON(), gp); err != nil {
		return "params: " + err.Error()
	}
	as := genesis.GenesisAppState{AssetHolders: hs, GovParams: gp}
	bz, err := tmjson.Marshal(as)
	if err != nil {
		return err.Error()
	}
	var vals []abcitypes.ValidatorUpdate
	for _, v := range g.Vals {
		vals = append(vals, abcitypes.ValidatorUpdate{PubKey: tmcrypto.PublicKey{Sum: &tmcrypto.PublicKey_Secp256K1{Secp256K1: v.Key.Pub}}, Power: v.Power})
	}
	n.ChainID = g.ChainID
	return n.guard("InitChain", func() {
		n.App.InitChain(abcitypes.RequestInitChain{ChainId: g.ChainID, AppStateBytes: bz, Validators: vals})
	})
}

type Vote struct {
	Addr   rtypes.Address
	Power  int64
	Signed bool
}

type BeginOut struct {
	Panic   string
	Issued  string
	PunishS []string
	PunishG []string
}

func (n *Node) BeginBlock(h int64, t int64, proposer rtypes.Address, votes []Vote, evid []rtypes.Address) BeginOut {
	var vi []abcitypes.VoteInfo
	for _, v := range votes {
		vi = append(vi, abcitypes.VoteInfo{Validator: abcitypes.Validator{Address: v.Addr, Power: v.Power}, SignedLastBlock: v.Signed})
	}
	var ev []abcitypes.Evidence
	for _, a := range evid {
		ev = append(ev, abcitypes.Evidence{Type: abcitypes.EvidenceType_DUPLICATE_VOTE, Validator: abcitypes.Validator{Address: a, Power: 1},
			Height: h - 1, Time: time.Unix(t, 0), TotalVotingPower: 1})
	}
	req := abcitypes.RequestBeginBlock{
		Header:              tmproto.Header{Height: h, Time: time.Unix(t, 0).UTC(), ProposerAddress: proposer, ChainID: n.ChainID},
		LastCommitInfo:      abcitypes.LastCommitInfo{Votes: vi},
		ByzantineValidators: ev,
	}
	var out BeginOut
	out.Issued = "-"
	out.Panic = n.guard("BeginBlock", func() {
		resp := n.App.BeginBlock(req)
		for _, e := range resp.Events {
			switch e.Type {
			case "reward":
				for _, a := range e.Attributes {
					if string(a.Key) == "issued" {
						out.Issued = string(a.Value)
					}
				}
			case "punishment.stake", "punishment.gov":
				for _, a := range e.Attributes {
					if string(a.Key) == "slashed" {
						if e.Type == "punishment.stake" {
							out.PunishS = append(out.PunishS, string(a.Value))
						} else {
							out.PunishG = append(out.PunishG, string(a.Value))
						}
					}
				}
			}
		}
	})
	if out.Panic != "" {
		n.Dead = out.Panic
	} else {
		n.InBlock = true
	}
	return out
}

type TxOut struct {
	Panic     string
	Code      uint32
	Log       string
	Data      []byte
	GasWanted int64
	GasUsed   int64
	Events    []abcitypes.Event
}

func (n *Node) DeliverTx(bz []byte) TxOut {
	var out TxOut
	out.Panic = n.guard("DeliverTx", func() {
		r := n.App.DeliverTx(abcitypes.RequestDeliverTx{Tx: bz})
		out.Code, out.Log, out.Data, out.GasWanted, out.GasUsed, out.Events = r.Code, r.Log, r.Data, r.GasWanted, r.GasUsed, r.Events
	})
	return out
}

func (n *Node) CheckTx(bz []byte) TxOut {
	var out TxOut
	out.Panic = n.guard("CheckTx", func() {
		r := n.App.CheckTx(abcitypes.RequestCheckTx{Tx: bz, Type: abcitypes.CheckTxType_New})
		out.Code, out.Log, out.Data, out.GasWanted, out.GasUsed = r.Code, r.Log, r.Data, r.GasWanted, r.GasUsed
	})
	return out
}

type ValUp struct {
	Pub   []byte
	Power int64
}

func (n *Node) EndBlock(h int64) (ups []ValUp, panicked string) {
	panicked = n.guard("EndBlock", func() {
		r := n.App.EndBlock(abcitypes.RequestEndBlock{Height: h})
		for _, u := range r.ValidatorUpdates {
			ups = append(ups, ValUp{Pub: u.PubKey.GetSecp256K1(), Power: u.Power})
		}
	})
	if panicked != "" {
		n.Dead = panicked
	}
	return
}

func (n *Node) Commit() (hash []byte, panicked string) {
	panicked = n.guard("Commit", func() {
		r := n.App.Commit()
		hash = r.Data
	})
	if panicked != "" {
		n.Dead = panicked
	} else {
		n.Height++
		n.AppHash = hash
		n.InBlock = false
	}
	return
}

type QueryOut struct {
	Panic string
	Code  uint32
	Value []byte
	Log   string
}

func (n *Node) Query(path string, data []byte, height int64) QueryOut {
	var out QueryOut
	out.Panic = n.guard("Query", func() {
		r := n.App.Query(abcitypes.RequestQuery{Path: path, Data: data, Height: height})
		out.Code, out.Value, out.Log = r.Code, r.Value, r.Log
	})
	return out
}

func ValUpsLine(ups []ValUp) string {
	if len(ups) == 0 {
		return "-"
	}
	var s []string
	for _, u := range ups {
		s = append(s, fmt.Sprintf("%s:%d", Hex(u.Pub), u.Power))
	}
	sort.Strings(s)
	return strings.Join(s, ",")
}

func dirOf(base string, name string) string { return filepath.Join(base, name) }
