package appdrv

import (
	"fmt"
	"strings"

	"github.com/holiman/uint256"
	ctrlertypes "github.com/rigochain/rigo-go/ctrlers/types"
	"github.com/rigochain/rigo-go/ledger"
	"github.com/rigochain/rigo-go/libs/verifhook"
	"github.com/rigochain/rigo-go/types/crypto"
	tmjson "github.com/tendermint/tendermint/libs/json"
	tmtypes "github.com/tendermint/tendermint/types"
	"google.golang.org/protobuf/proto"
)

// TxSpec describes a transaction to build (possibly malformed on purpose).
type TxSpec struct {
	Version     uint32
	Time        int64
	Nonce       uint64
	From, To    []byte
	Amount      *uint256.Int
	Gas         uint64
	GasPrice    *uint256.Int
	Type        int32
	Payload     ctrlertypes.ITrxPayload   // nil = none
	RawXPayload []byte                    // if non-nil, replaces the encoded payload bytes
	Signer      *Key                      // nil = unsigned
	SignChain   string                    // chain id the signature is made for
	Mutate      func(tx *ctrlertypes.Trx) // applied after signing (field tampering)
	SigFlip     int                       // >0: flip bit (SigFlip-1) of the signature
	Junk        []byte                    // appended to the protobuf bytes (unknown field) if non-nil
}

func (s *TxSpec) Build() []byte {
	tx := &ctrlertypes.Trx{Version: s.Version, Time: s.Time, Nonce: s.Nonce, From: s.From, To: s.To, Amount: s.Amount,
		Gas: s.Gas, GasPrice: s.GasPrice, Type: s.Type, Payload: s.Payload}
	if tx.Amount == nil {
		tx.Amount = uint256.NewInt(0)
	}
	if tx.GasPrice == nil {
		tx.GasPrice = uint256.NewInt(0)
	}
	if s.Signer != nil {
		pre, xerr := ctrlertypes.PreImageToSignTrxRLP(tx, s.SignChain)
		if xerr == nil {
			sig, err := crypto.Sign(pre, s.Signer.Prv)
			if err == nil {
				tx.Sig = sig
			}
		}
	}
	if s.SigFlip > 0 && len(tx.Sig) > 0 {
		i := (s.SigFlip - 1) % (len(tx.Sig) * 8)
		sig := append([]byte(nil), tx.Sig...)
		sig[i/8] ^= 1 << uint(i%8)
		tx.Sig = sig
	}
	if s.Mutate != nil {
		s.Mutate(tx)
	}
	var payload []byte
	if tx.Payload != nil {
		payload, _ = tx.Payload.Encode()
	}
	if s.RawXPayload != nil {
		payload = s.RawXPayload
	}
	pm := &ctrlertypes.TrxProto{Version: tx.Version, Time: tx.Time, Nonce: tx.Nonce, From: tx.From, To: tx.To,
		XAmount: tx.Amount.Bytes(), Gas: tx.Gas, XGasPrice: tx.GasPrice.Bytes(), Type: tx.Type, XPayload: payload, Sig: tx.Sig}
	bz, _ := proto.Marshal(pm)
	if s.Junk != nil {
		bz = append(bz, s.Junk...)
	}
	return bz
}

// parseParams renders the result of unmarshalling a governance option as the code does.
func parseParams(opt []byte) string {
	gp := &ctrlertypes.GovParams{}
	if err := tmjson.Unmarshal(opt, gp); err != nil {
		return "bad"
	}
	return strings.ReplaceAll(ParamsLine(gp), ",", "_")
}

func applyTimeOption(opt []byte) []byte {
	s := string(opt)
	if strings.HasSuffix(s, `""}`) {
		s = strings.ReplaceAll(s, `""}`, `"}`)
	}
	return []byte(s)
}

// DescribeTx decodes the bytes the way the application does and renders the model's input fields.
func DescribeTx(bz []byte, chainID string) (fields string, tx *ctrlertypes.Trx) {
	tx = &ctrlertypes.Trx{}
	if xerr := tx.Decode(bz); xerr != nil {
		return "dec=0", nil
	}
	hash := tmtypes.Tx(bz).Hash()
	sig, pub := "bad", "-"
	func() {
		defer func() { _ = recover() }()
		if _, pk, xerr := ctrlertypes.VerifyTrxRLP(tx, chainID); xerr == nil {
			sig, pub = "ok", Hex(pk)
		}
	}()
	pl := "none"
	switch p := tx.Payload.(type) {
	case *ctrlertypes.TrxPayloadUnstaking:
		pl = "unstk:" + Hex(p.TxHash)
	case *ctrlertypes.TrxPayloadWithdraw:
		pl = "wd:" + p.ReqAmt.Dec()
	case *ctrlertypes.TrxPayloadProposal:
		opts := "-"
		if len(p.Options) > 0 {
			var os []string
			for _, o := range p.Options {
				os = append(os, Hex(o)+"~"+parseParams(o)+"~"+parseParams(applyTimeOption(o)))
			}
			opts = strings.Join(os, ";")
		}
		pl = fmt.Sprintf("prop:%s:%d:%d:%d:%d:%s", Hex([]byte(p.Message)), p.StartVotingHeight, p.VotingPeriodBlocks, p.ApplyingHeight, p.OptType, opts)
	case *ctrlertypes.TrxPayloadVoting:
		pl = fmt.Sprintf("vote:%s:%d", Hex(p.TxHash), p.Choice)
	case *ctrlertypes.TrxPayloadContract:
		pl = "contract:" + Hex(p.Data)
	case *ctrlertypes.TrxPayloadSetDoc:
		pl = fmt.Sprintf("setdoc:%s:%s:%d:%d", Hex([]byte(p.Name)), Hex([]byte(p.URL)), len(p.Name), len(p.URL))
	}
	fields = fmt.Sprintf("dec=1 hash=%s sig=%s pub=%s ver=%d time=%d nonce=%d from=%s to=%s amt=%s gas=%d price=%s type=%d pl=%s",
		Hex(hash), sig, pub, tx.Version, tx.Time, tx.Nonce, Hex(tx.From), Hex(tx.To), tx.Amount.Dec(), tx.Gas, tx.GasPrice.Dec(), tx.Type, pl)
	return fields, tx
}

// ErrKind maps a response log to a short stable error kind (most specific first).
func ErrKind(code uint32, log string) string {
	if code == 0 {
		return "ok"
	}
	pats := []struct{ pat, kind string }{
		{"invalid nonce", "nonce"}, {"insufficient fund", "funds"}, {"invalid signature", "sig"}, {"wrong address or sig", "sig"},
		{"recovery", "sig"}, {"signature length", "sig"},
		{"invalid gas price", "gasprice"}, {"too small gas", "minfee"}, {"invalid gas", "gas"},
		{"invalid address", "address"}, {"invalid amount", "amount"}, {"not found account", "noacct"},
		{"no right", "noright"}, {"not voting period", "notvoting"}, {"already existed key", "dupkey"},
		{"not found delegatee", "nodelegatee"}, {"you not stake owner", "notowner"}, {"not found stake", "nostake"},
		{"exceeded updatable stake ratio", "limiter"}, {"wrong amount", "stakeamt"}, {"too small stake to become validator", "minvalstake"},
		{"too small stake to become delegator", "mindelstake"}, {"not enough self power", "selfratio"},
		{"insufficient reward", "noreward"}, {"amount must be 0", "wdamount"}, {"not found result", "notfound"},
		{"wrong address: the 'to' field", "tozero"}, {"too long name", "payloadparams"}, {"too long url", "payloadparams"},
		{"wrong applyingHeight", "payloadparams"}, {"overflow occurs", "payloadparams"}, {"wrong options", "payloadparams"},
		{"JSON", "payloadparams"}, {"strconv", "payloadparams"}, {"invalid syntax", "payloadparams"}, {"out of range", "payloadparams"}, {"looking for beginning", "payloadparams"}, {"json:", "payloadparams"}, {"invalid character", "payloadparams"}, {"cannot unmarshal", "payloadparams"}, {"cannot decode empty bytes", "payloadparams"}, {"invalid params of transaction payload", "payloadparams"},
		{"wrong transaction payload type", "payloadtype"}, {"unknown transaction type", "unknowntype"},
		{"execution reverted", "evmrevert"}, {"out of gas", "evmoog"}, {"intrinsic gas too low", "evmintrinsic"},
		{"invalid opcode", "evmbadop"}, {"gas limit reached", "evmgaspool"}, {"nonce too", "evmnonce"},
		{"insufficient funds for", "evmfunds"}, {"stack underflow", "evmstack"}, {"stack limit", "evmstack"},
		{"invalid jump", "evmjump"}, {"contract address collision", "evmcollision"}, {"max code size", "evmcodesize"},
		{"write protection", "evmwriteprot"}, {"return data out of bounds", "evmretdata"}, {"max initcode", "evminit"},
		{"proto:", "decode"}, {"cannot parse", "decode"}, {"unexpected EOF", "decode"},
	}
	for _, p := range pats {
		if strings.Contains(log, p.pat) {
			return p.kind
		}
	}
	return "other"
}

// EvmTrace collects the state-db wrapper's sync events during one transaction.
type EvmTrace struct {
	Events []string // "syncin addr n", "unsync addr n", "syncout addr", "snapshot n", "revert n"
	In     []string // addresses synced in (in order, with repeats removed)
	Out    []string // addresses synced out
}

func (n *Node) TraceTx(f func()) *EvmTrace {
	t := &EvmTrace{}
	seenIn := map[string]bool{}
	verifhook.TraceHook = func(ev string, addr []byte, k int) {
		t.Events = append(t.Events, fmt.Sprintf("%s %s %d", ev, Hex(addr), k))
		switch ev {
		case "syncin":
			if !seenIn[Hex(addr)] {
				seenIn[Hex(addr)] = true
				t.In = append(t.In, Hex(addr))
			}
		case "syncout":
			t.Out = append(t.Out, Hex(addr))
		}
	}
	defer func() { verifhook.TraceHook = nil }()
	f()
	return t
}

// AccountView reads one account through the consensus view ("" if absent).
func (n *Node) AccountView(addr []byte) *ctrlertypes.Account {
	al := n.App.VerifAcct().VerifLedger()
	if a, ok := al.VerifView(ledger.ToLedgerKey(addr), true); ok {
		return a
	}
	return nil
}
