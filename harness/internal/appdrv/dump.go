package appdrv

import (
	"fmt"
	"sort"
	"strings"

	"github.com/rigochain/rigo-go/ctrlers/gov/proposal"
	"github.com/rigochain/rigo-go/ctrlers/stake"
	ctrlertypes "github.com/rigochain/rigo-go/ctrlers/types"
)

func FmtAccount(a *ctrlertypes.Account) string {
	return fmt.Sprintf("A:%s:%d:%s:%s:%s:%s", Hex(a.Address), a.Nonce, a.Balance.Dec(), Hex(a.Code), Hex([]byte(a.Name)), Hex([]byte(a.DocURL)))
}

func FmtStake(s *stake.Stake) string {
	return fmt.Sprintf("%s/%s/%s/%d/%d/%d", Hex(s.From), Hex(s.To), Hex(s.TxHash), s.Power, s.StartHeight, s.RefundHeight)
}

func FmtDelegatee(d *stake.Delegatee) string {
	var ss []string
	for _, s := range d.Stakes {
		ss = append(ss, FmtStake(s))
	}
	st := "-"
	if len(ss) > 0 {
		st = strings.Join(ss, ";")
	}
	ns := "-"
	if d.NotSignedHeights != nil && len(d.NotSignedHeights.BlockHeights) > 0 {
		var hs []string
		for _, h := range d.NotSignedHeights.BlockHeights {
			hs = append(hs, fmt.Sprint(h))
		}
		ns = strings.Join(hs, ";")
	}
	return fmt.Sprintf("D:%s:%s:%d:%d:%d:%s:%s", Hex(d.Addr), Hex(d.PubKey), d.SelfPower, d.TotalPower, d.SlashedPower, st, ns)
}

func FmtFrozen(s *stake.Stake) string { return "F:" + strings.ReplaceAll(FmtStake(s), "/", ":") }

func FmtReward(r *stake.Reward) string {
	return fmt.Sprintf("R:%s:%s:%s:%s:%s:%d", Hex(r.Address()), r.GetIssued().Dec(), r.GetWithdrawn().Dec(), r.GetSlashed().Dec(), r.GetCumulated().Dec(), r.Height())
}

func FmtProposal(tag string, p *proposal.GovProposal) string {
	var vs []string
	var keys []string
	for k := range p.Voters {
		keys = append(keys, k)
	}
	sort.Strings(keys)
	for _, k := range keys {
		v := p.Voters[k]
		vs = append(vs, fmt.Sprintf("%s/%d/%d", Hex(v.Addr), v.Power, v.Choice))
	}
	voters := "-"
	if len(vs) > 0 {
		voters = strings.Join(vs, ";")
	}
	var os []string
	for _, o := range p.Options {
		os = append(os, fmt.Sprintf("%s/%d", Hex(o.Option()), o.Votes()))
	}
	opts := "-"
	if len(os) > 0 {
		opts = strings.Join(os, ";")
	}
	major := "-"
	if p.MajorOption != nil {
		major = fmt.Sprintf("%s/%d", Hex(p.MajorOption.Option()), p.MajorOption.Votes())
	}
	return fmt.Sprintf("%s:%s:%d:%d:%d:%d:%d:%d:%s:%s:%s", tag, Hex(p.TxHash), p.StartVotingHeight, p.EndVotingHeight, p.ApplyingHeight,
		p.TotalVotingPower, p.MajorityPower, p.OptType, voters, opts, major)
}

// Dump renders the consensus view (committed state + pending block changes) canonically.
func (n *Node) Dump() string {
	var parts []string
	al := n.App.VerifAcct().VerifLedger()
	for _, k := range al.VerifKeys(true) {
		if a, ok := al.VerifView(k, true); ok {
			parts = append(parts, FmtAccount(a))
		}
	}
	sc := n.App.VerifStake()
	dl := sc.VerifDelegateeLedger()
	for _, k := range dl.VerifKeys(true) {
		if d, ok := dl.VerifView(k, true); ok {
			parts = append(parts, FmtDelegatee(d))
		}
	}
	fl := sc.VerifFrozenLedger()
	for _, k := range fl.VerifKeys(true) {
		if s, ok := fl.VerifView(k, true); ok {
			parts = append(parts, FmtFrozen(s))
		}
	}
	rl := sc.VerifRewardLedger()
	for _, k := range rl.VerifKeys(true) {
		if r, ok := rl.VerifView(k, true); ok {
			parts = append(parts, FmtReward(r))
		}
	}
	gc := n.App.VerifGov()
	pl := gc.VerifProposalLedger()
	for _, k := range pl.VerifKeys(true) {
		if p, ok := pl.VerifView(k, true); ok {
			parts = append(parts, FmtProposal("P", p))
		}
	}
	fpl := gc.VerifFrozenLedger()
	for _, k := range fpl.VerifKeys(true) {
		if p, ok := fpl.VerifView(k, true); ok {
			parts = append(parts, FmtProposal("FP", p))
		}
	}
	gl := gc.VerifParamsLedger()
	for _, k := range gl.VerifKeys(true) {
		if g, ok := gl.VerifView(k, true); ok {
			parts = append(parts, "G:"+ParamsLine(g))
		}
	}
	parts = append(parts, "GA:"+ParamsLine(gc.VerifActiveParams()))
	parts = append(parts, "GN:"+ParamsLine(gc.VerifNewGovParams()))
	var vs []string
	for _, d := range sc.VerifLastValidators() {
		vs = append(vs, fmt.Sprintf("%s/%d", Hex(d.Addr), d.TotalPower))
	}
	v := "-"
	if len(vs) > 0 {
		v = strings.Join(vs, ";")
	}
	parts = append(parts, "V:"+v)
	return strings.Join(parts, " ")
}

// LimiterState renders the stake limiter (shared between CheckTx and DeliverTx).
func (n *Node) LimiterState() string { return n.App.VerifStake().VerifLimiterState() }
