// Package ledgerstream: C18 correspondence. Random operation sequences are run on the real
// ledger.FinalityLedger (LevelDB + IAVL), on the Lean model (rigodriver ledger: Impl and Spec)
// and on an independent overlay-map monitor written from the property statement.
package ledgerstream

import (
	"encoding/binary"
	"fmt"
	"os"
	"path/filepath"
	"strconv"
	"strings"

	"github.com/rigochain/rigo-go/ledger"
	"github.com/rigochain/rigo-go/types/xerrors"
	"verifharness/internal/common"
	"verifharness/internal/rng"
)

type item struct {
	K uint64
	V uint64
}

func keyOf(k uint64) ledger.LedgerKey {
	var lk ledger.LedgerKey
	binary.BigEndian.PutUint64(lk[:8], k)
	return lk
}

func (it *item) Key() ledger.LedgerKey { return keyOf(it.K) }
func (it *item) Encode() ([]byte, xerrors.XError) {
	bz := make([]byte, 16)
	binary.BigEndian.PutUint64(bz[:8], it.K)
	binary.BigEndian.PutUint64(bz[8:], it.V)
	return bz, nil
}
func (it *item) Decode(bz []byte) xerrors.XError {
	if len(bz) != 16 {
		return xerrors.NewOrdinary("bad item")
	}
	it.K = binary.BigEndian.Uint64(bz[:8])
	it.V = binary.BigEndian.Uint64(bz[8:])
	return nil
}

type real struct {
	dir string
	l   *ledger.FinalityLedger[*item]
	old []*oldHandle
}

// oldHandle: a historical handle kept open across later commits. The node never keeps one across ABCI calls and
// IAVL serves a handle opened for the then-latest version from its fast index, so keys DELETED later are not stable
// (DESIGN §9.2 observation); a key that still exists must keep answering the value of the handle's version.
type oldHandle struct {
	il      ledger.ILedger[*item]
	k       uint64
	ans     string
	tainted bool
}

func openReal(dir string) (*real, error) {
	l, xerr := ledger.NewFinalityLedger[*item]("t", dir, 16, func() *item { return &item{} })
	if xerr != nil {
		return nil, xerr
	}
	return &real{dir: dir, l: l}, nil
}

func val(it *item, xerr xerrors.XError) string {
	if xerr != nil || it == nil {
		return "val none"
	}
	return fmt.Sprintf("val %d", it.V)
}

// apply one operation line on the real ledger and render the canonical output.
func (r *real) apply(ws []string) (out string) {
	defer func() {
		if e := recover(); e != nil {
			out = fmt.Sprintf("panic %v", e)
		}
	}()
	u := func(i int) uint64 { n, _ := strconv.ParseUint(ws[i], 10, 64); return n }
	switch ws[0] {
	case "set":
		_ = r.l.Set(&item{u(1), u(2)})
		return "unit"
	case "cancelSet":
		_ = r.l.CancelSet(keyOf(u(1)))
		return "unit"
	case "get":
		return val(r.l.Get(keyOf(u(1))))
	case "del":
		return val(r.l.Del(keyOf(u(1))))
	case "cancelDel":
		_ = r.l.CancelDel(keyOf(u(1)))
		return "unit"
	case "setF":
		_ = r.l.SetFinality(&item{u(1), u(2)})
		return "unit"
	case "cancelSetF":
		_ = r.l.CancelSetFinality(keyOf(u(1)))
		return "unit"
	case "getF":
		return val(r.l.GetFinality(keyOf(u(1))))
	case "delF":
		return val(r.l.DelFinality(keyOf(u(1))))
	case "cancelDelF":
		_ = r.l.CancelDelFinality(keyOf(u(1)))
		return "unit"
	case "read":
		return val(r.l.Read(keyOf(u(1))))
	case "iterAll":
		var parts []string
		_ = r.l.IterateReadAllFinalityItems(func(it *item) xerrors.XError {
			parts = append(parts, fmt.Sprintf("%d:%d", it.K, it.V))
			return nil
		})
		return "items " + strings.Join(parts, ",")
	case "commit":
		_, v, xerr := r.l.Commit()
		if xerr != nil {
			return "err"
		}
		for _, oh := range r.old {
			if it, e := r.l.Read(keyOf(oh.k)); e != nil || it == nil {
				oh.tainted = true // the key was deleted after the handle was opened
			}
		}
		return fmt.Sprintf("ver %d", v)
	case "readAt":
		n, _ := strconv.ParseInt(ws[1], 10, 64)
		il, xerr := r.l.ImmutableLedgerAt(n, 0)
		if xerr != nil {
			return "err"
		}
		k := keyOf(u(2))
		for _, oh := range r.old {
			if oh.tainted {
				continue
			}
			if now := val(oh.il.Read(keyOf(oh.k))); now != oh.ans {
				return oh.ans + " but-a-handle-opened-earlier-for-that-version-now-answers " + now
			}
		}
		a := val(il.Read(k))
		if strings.HasPrefix(a, "val ") && a != "val none" {
			if il2, e2 := r.l.ImmutableLedgerAt(n, 0); e2 == nil {
				if len(r.old) >= 4 {
					r.old = r.old[1:]
				}
				r.old = append(r.old, &oldHandle{il: il2, k: u(2), ans: a})
			}
		}
		// the handle's own (initially empty) overlay must answer the committed value too
		if b := val(il.Get(k)); b != a {
			return a + " but-Get-answers " + b
		}
		// iteration over the historical handle (the `stakes`, `stakes/total_power` queries) must agree with the key read
		itv := "val none"
		_ = il.IterateReadAllItems(func(it *item) xerrors.XError {
			if it.K == u(2) {
				itv = fmt.Sprintf("val %d", it.V)
			}
			return nil
		})
		if itv != a {
			return a + " but-Iterate-answers " + itv
		}
		// a historical handle is also used as a scratch view (the read-only account handler behind vm_call
		// writes to it): whatever a reader writes there must stay private to that reader
		if it, e := il.Get(k); e == nil && it != nil {
			it.V += 7777
			_ = il.Set(it)
		} else {
			_ = il.Set(&item{u(2), 7777})
		}
		return a
	case "reopen":
		r.old = nil
		_ = r.l.Close()
		nr, err := openReal(r.dir)
		if err != nil {
			return "panic reopen: " + err.Error()
		}
		r.l = nr.l
		return "unit"
	case "version":
		return fmt.Sprintf("ver %d", r.l.Version())
	}
	return "bad-op"
}

// monitor: the overlay map of the property statement. An overlay is the set of pending writes plus the
// multiset of pending deletes over the last commit; Cancel* undo one pending write / one pending delete.
type overlay struct {
	written map[uint64]uint64
	deleted map[uint64]int
}

func newOverlay() *overlay { return &overlay{written: map[uint64]uint64{}, deleted: map[uint64]int{}} }

type monitor struct {
	committed []map[uint64]uint64
	fin, chk  *overlay
}

func cp(m map[uint64]uint64) map[uint64]uint64 {
	r := map[uint64]uint64{}
	for k, v := range m {
		r[k] = v
	}
	return r
}
func newMonitor() *monitor { return &monitor{fin: newOverlay(), chk: newOverlay()} }
func (m *monitor) last() map[uint64]uint64 {
	if len(m.committed) == 0 {
		return map[uint64]uint64{}
	}
	return m.committed[len(m.committed)-1]
}
func (m *monitor) view(o *overlay, k uint64) (uint64, bool) {
	if v, ok := o.written[k]; ok {
		return v, true
	}
	if o.deleted[k] > 0 {
		return 0, false
	}
	v, ok := m.last()[k]
	return v, ok
}
func sval(v uint64, ok bool) string {
	if ok {
		return fmt.Sprintf("val %d", v)
	}
	return "val none"
}
func mval(m map[uint64]uint64, k uint64) string {
	v, ok := m[k]
	return sval(v, ok)
}
func (m *monitor) del(o *overlay, k uint64) string {
	v, ok := m.view(o, k)
	if ok {
		delete(o.written, k)
		o.deleted[k]++
	}
	return sval(v, ok)
}
func (m *monitor) apply(ws []string) string {
	u := func(i int) uint64 { n, _ := strconv.ParseUint(ws[i], 10, 64); return n }
	switch ws[0] {
	case "set":
		m.chk.written[u(1)] = u(2)
		return "unit"
	case "cancelSet":
		delete(m.chk.written, u(1))
		return "unit"
	case "get":
		return sval(m.view(m.chk, u(1)))
	case "del":
		return m.del(m.chk, u(1))
	case "cancelDel":
		if m.chk.deleted[u(1)] > 0 {
			m.chk.deleted[u(1)]--
		}
		return "unit"
	case "setF":
		m.fin.written[u(1)] = u(2)
		return "unit"
	case "cancelSetF":
		delete(m.fin.written, u(1))
		return "unit"
	case "getF":
		return sval(m.view(m.fin, u(1)))
	case "delF":
		m.del(m.chk, u(1)) // a consensus delete also deletes from the mempool overlay
		return m.del(m.fin, u(1))
	case "cancelDelF":
		if m.fin.deleted[u(1)] > 0 {
			m.fin.deleted[u(1)]--
		}
		return "unit"
	case "read":
		return mval(m.last(), u(1))
	case "iterAll":
		return "" // not judged by the monitor
	case "commit":
		next := cp(m.last())
		for k, n := range m.fin.deleted {
			if n > 0 {
				delete(next, k)
			}
		}
		for k, v := range m.fin.written {
			next[k] = v
		}
		m.committed = append(m.committed, next)
		m.fin, m.chk = newOverlay(), newOverlay()
		return fmt.Sprintf("ver %d", len(m.committed))
	case "readAt":
		n, _ := strconv.ParseInt(ws[1], 10, 64)
		if n <= 0 {
			return mval(m.last(), u(2))
		}
		if int(n) > len(m.committed) {
			return "err"
		}
		return mval(m.committed[n-1], u(2))
	case "reopen":
		m.fin, m.chk = newOverlay(), newOverlay()
		return "unit"
	case "version":
		return fmt.Sprintf("ver %d", len(m.committed))
	}
	return ""
}

func genHistory(r *rng.R, withCancel bool, maxOps int) []string {
	nkeys := r.Range(1, 6)
	n := r.Range(5, maxOps)
	key := func() int { return 1 + r.Intn(nkeys) }
	var ops []string
	ver := 0
	for i := 0; i < n; i++ {
		var w []int
		//           set cSet get del cDel setF cSetF getF delF cDelF read iter commit readAt reopen version
		if withCancel {
			w = []int{8, 4, 8, 6, 4, 12, 5, 12, 9, 5, 4, 3, 7, 6, 2, 1}
		} else {
			w = []int{8, 0, 8, 6, 0, 14, 0, 14, 11, 0, 4, 3, 8, 7, 2, 1}
		}
		switch r.Pick(w...) {
		case 0:
			ops = append(ops, fmt.Sprintf("set %d %d", key(), r.Intn(1000)))
		case 1:
			ops = append(ops, fmt.Sprintf("cancelSet %d", key()))
		case 2:
			ops = append(ops, fmt.Sprintf("get %d", key()))
		case 3:
			ops = append(ops, fmt.Sprintf("del %d", key()))
		case 4:
			ops = append(ops, fmt.Sprintf("cancelDel %d", key()))
		case 5:
			ops = append(ops, fmt.Sprintf("setF %d %d", key(), r.Intn(1000)))
		case 6:
			ops = append(ops, fmt.Sprintf("cancelSetF %d", key()))
		case 7:
			ops = append(ops, fmt.Sprintf("getF %d", key()))
		case 8:
			k := key()
			ops = append(ops, fmt.Sprintf("delF %d", k))
			if r.Chance(45) { // delete / re-create inside one commit interval
				ops = append(ops, fmt.Sprintf("setF %d %d", k, r.Intn(1000)))
				if r.Chance(70) {
					ops = append(ops, fmt.Sprintf("getF %d", k))
				}
			}
		case 9:
			ops = append(ops, fmt.Sprintf("cancelDelF %d", key()))
		case 10:
			ops = append(ops, fmt.Sprintf("read %d", key()))
		case 11:
			ops = append(ops, "iterAll")
		case 12:
			ops = append(ops, "commit")
			ver++
		case 13:
			ops = append(ops, fmt.Sprintf("readAt %d %d", r.Range(-1, ver+1), key()))
		case 14:
			ops = append(ops, "reopen")
		case 15:
			ops = append(ops, "version")
		}
	}
	return ops
}

// runReal runs one history on a fresh real ledger.
func runReal(base string, idx int, ops []string) ([]string, error) {
	dir := filepath.Join(base, fmt.Sprintf("l%d", idx))
	_ = os.RemoveAll(dir)
	if err := os.MkdirAll(dir, 0755); err != nil {
		return nil, err
	}
	defer os.RemoveAll(dir)
	r, err := openReal(dir)
	if err != nil {
		return nil, err
	}
	defer func() {
		if r.l != nil {
			_ = r.l.Close()
		}
	}()
	outs := make([]string, len(ops))
	for i, op := range ops {
		outs[i] = r.apply(strings.Fields(op))
	}
	return outs, nil
}

func hasCancel(ops []string) bool {
	for _, op := range ops {
		if strings.HasPrefix(op, "cancel") {
			return true
		}
	}
	return false
}

func monitorCheck(ops, outs []string) (int, string) {
	m := newMonitor()
	for i, op := range ops {
		exp := m.apply(strings.Fields(op))
		if exp != "" && exp != outs[i] {
			return i, exp
		}
	}
	return -1, ""
}

// Run is the stream entry point.
func Run(seed uint64, tier, work, driver string, replay []string) *common.Result {
	res := common.NewResult("ledger", seed, tier)
	res.Rule = "random set/get/del/cancel/iterate/commit/readAt/reopen sequences over 1-6 keys on both overlays; " +
		"a case is (operation kind, output kind) and a history is non-trivial when it contains a commit and a delete; " +
		"distinct_nontrivial counts distinct non-trivial histories"
	r := rng.New(seed)
	nh, maxOps := 400, 60
	if tier == "thorough" {
		nh, maxOps = 20000, 80
	}
	var hist [][]string
	if replay != nil {
		hist = [][]string{replay}
	} else {
		for i := 0; i < nh; i++ {
			hist = append(hist, genHistory(r.Fork(), i%2 == 0, maxOps))
		}
	}
	distinct := common.Distinct{}
	var all []string
	var realOuts [][]string
	for i, ops := range hist {
		outs, err := runReal(work, i, ops)
		if err != nil {
			res.Error = err.Error()
			return res
		}
		realOuts = append(realOuts, outs)
		all = append(all, "reset")
		all = append(all, ops...)
		res.Histories++
		nontrivial := false
		hasCommit, hasDel := false, false
		for j, op := range ops {
			res.Evaluations++
			kind := strings.Fields(op)[0]
			res.Count(kind + "/" + strings.Fields(outs[j])[0])
			if kind == "commit" {
				hasCommit = true
			}
			if kind == "delF" || kind == "del" {
				hasDel = true
			}
			if strings.HasPrefix(outs[j], "panic") {
				res.Violations = append(res.Violations, common.Violation{Property: "C18", Kind: "panic",
					Detail: fmt.Sprintf("operation %q panicked: %s", op, outs[j]), Ops: ops[:j+1]})
			}
		}
		nontrivial = hasCommit && hasDel
		if nontrivial {
			distinct.Add(strings.Join(ops, ";"))
		}
		// independent monitor (only meaningful without Cancel* operations)
		{
			if idx, exp := monitorCheck(ops, outs); idx >= 0 {
				fails := func(c []string) bool {
					o, err := runReal(work, 1<<20, c)
					if err != nil {
						return false
					}
					k, _ := monitorCheck(c, o)
					return k >= 0
				}
				small := common.Shrink(ops[:idx+1], fails, 300)
				res.Violations = append(res.Violations, common.Violation{Property: "C18", Kind: "overlay-map",
					Detail: fmt.Sprintf("history %d op %d %q: ledger answered %q, overlay-map semantics require %q", i, idx, ops[idx], outs[idx], exp),
					Ops:    small})
			}
		}
		if i < 3 {
			res.Samples = append(res.Samples, strings.Join(ops, "; "))
		}
		if len(res.Violations) >= 3 {
			hist = hist[:i+1]
			break
		}
	}
	res.DistinctNontrivial = len(distinct)
	// Lean model (Impl + Spec) on the same lines
	modelOut, err := common.RunDriver(driver, "ledger", all)
	if err != nil {
		res.Error = err.Error()
		return res
	}
	pos := 0
	for i, ops := range hist {
		pos++ // "reset" line
		for j, op := range ops {
			if pos >= len(modelOut) {
				res.Error = "model output too short"
				return res
			}
			mo := modelOut[pos]
			pos++
			if mo != realOuts[i][j] {
				fails := func(c []string) bool {
					o, err := runReal(work, 1<<20, c)
					if err != nil {
						return false
					}
					mo, err := common.RunDriver(driver, "ledger", c)
					if err != nil || len(mo) != len(o) {
						return false
					}
					for k := range o {
						if o[k] != mo[k] {
							return true
						}
					}
					return false
				}
				small := common.Shrink(ops[:j+1], fails, 200)
				res.Disagreements = append(res.Disagreements, common.Disagreement{History: i, Index: j, Op: op,
					Impl: realOuts[i][j], Model: mo, Ops: small})
				break
			}
		}
		if len(res.Disagreements) >= 5 {
			break
		}
		// realign in case of an early break
		pos = 0
		for k := 0; k <= i; k++ {
			pos += 1 + len(hist[k])
		}
	}
	return res
}
