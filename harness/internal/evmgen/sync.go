package evmgen

// Templates that exercise the state-db wrapper's sync protocol (C17 `evmsync` stream): addresses
// first touched INSIDE a call frame that reverts, touched again afterwards, nested frames that
// revert to outer revision ids. They are not part of Pick (the shared generator's distribution is
// unchanged); the evmsync stream deploys and calls them itself.

const (
	AND  = 0x16
	DUP2 = 0x81
	DUP6 = 0x85
)

// TouchReverter: reads BALANCE(arg0), forwards the call value to arg0, then reverts.
// (arg0 is first touched inside this frame; the revert must un-sync it.)
func touchReverter() []byte {
	a := &Asm{}
	a.Push1(0).Op(CALLDATALOAD).Op(BALANCE).Op(POP)
	a.Push1(0).Push1(0).Push1(0).Push1(0).Op(CALLVALUE).Push1(0).Op(CALLDATALOAD).Op(GAS).Op(CALL).Op(POP)
	a.Push1(0).Push1(0).Op(REVERT)
	return a.B
}

// Retoucher: calldata = (callee, x). Calls callee(x) with half of the call value ignoring failure,
// then reads BALANCE(x) (x is synced in AGAIN if the callee's frame reverted), then sends the other
// half to x. Slots 3, 5, 6 record the results.
func retoucher() []byte {
	a := &Asm{}
	a.Push1(32).Op(CALLDATALOAD).Push1(0).Op(MSTORE)
	a.Push1(0).Push1(0).Push1(32).Push1(0).Push1(2).Op(CALLVALUE).Op(DIV).Push1(0).Op(CALLDATALOAD).Op(GAS).Op(CALL)
	a.Push1(3).Op(SSTORE)
	a.Push1(32).Op(CALLDATALOAD).Op(BALANCE).Push1(5).Op(SSTORE)
	a.Push1(0).Push1(0).Push1(0).Push1(0).Push1(2).Op(CALLVALUE).Op(DIV).Push1(32).Op(CALLDATALOAD).Op(GAS).Op(CALL)
	a.Push1(6).Op(SSTORE)
	a.Op(STOP)
	return a.B
}

// Recurser: calldata word 0 = n. For n > 0: touches 0x1000+n, sends it 1 unit, calls itself with
// n-1 (ignoring failure), touches 0x2000+n, touches 0x1000+n-1 again (the address the inner frame
// touched), and REVERTS when n is odd. Frames at odd depth revert to an OUTER revision id after
// their inner frames returned successfully; even frames keep their effects.
func recurser() []byte {
	a := &Asm{}
	a.Push1(0).Op(CALLDATALOAD)              // [n]
	a.Op(DUP1).Op(ISZERO).Push2(0).Op(JUMPI) // -> end (patched)
	jEnd := len(a.B) - 3
	a.Op(DUP1).Push2(0x1000).Op(ADD).Op(BALANCE).Op(POP)
	a.Push1(0).Push1(0).Push1(0).Push1(0).Push1(1).Op(DUP6).Push2(0x1000).Op(ADD).Op(GAS).Op(CALL).Op(POP)
	a.Push1(1).Op(DUP2).Op(SUB).Push1(0).Op(MSTORE) // mem[0] = n-1
	a.Push1(0).Push1(0).Push1(32).Push1(0).Push1(0).Op(ADDRESS).Op(GAS).Op(CALL).Op(POP)
	a.Op(DUP1).Push2(0x2000).Op(ADD).Op(BALANCE).Op(POP)
	a.Push1(1).Op(DUP2).Op(SUB).Push2(0x1000).Op(ADD).Op(BALANCE).Op(POP)
	a.Push1(1).Op(AND).Push2(0).Op(JUMPI) // -> rev (patched)
	jRev := len(a.B) - 3
	end := len(a.B)
	a.Op(JUMPDEST).Op(STOP)
	rev := len(a.B)
	a.Op(JUMPDEST).Push1(0).Push1(0).Op(REVERT)
	a.B[jEnd], a.B[jEnd+1] = byte(end>>8), byte(end)
	a.B[jRev], a.B[jRev+1] = byte(rev>>8), byte(rev)
	return a.B
}

func TouchReverter() Program {
	return Program{Name: "touchreverter", Init: Deploy(touchReverter()), Payable: true, NeedsArg: true}
}

func Retoucher() Program {
	return Program{Name: "retoucher", Init: Deploy(retoucher()), Payable: true, NeedsArg: true}
}

func Recurser() Program {
	return Program{Name: "recurser", Init: Deploy(recurser()), Payable: true, NeedsArg: true}
}
