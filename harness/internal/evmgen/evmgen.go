// Package evmgen assembles small EVM programs from templates (C17 generator).
package evmgen

import (
	"verifharness/internal/rng"
)

// opcodes used by the templates
const (
	STOP         = 0x00
	ADD          = 0x01
	MUL          = 0x02
	SUB          = 0x03
	DIV          = 0x04
	EXP          = 0x0a
	LT           = 0x10
	EQ           = 0x14
	ISZERO       = 0x15
	ADDRESS      = 0x30
	BALANCE      = 0x31
	CALLER       = 0x33
	CALLVALUE    = 0x34
	CALLDATALOAD = 0x35
	CALLDATASIZE = 0x36
	CODECOPY     = 0x39
	SELFBALANCE  = 0x47
	POP          = 0x50
	MLOAD        = 0x51
	MSTORE       = 0x52
	SLOAD        = 0x54
	SSTORE       = 0x55
	JUMP         = 0x56
	JUMPI        = 0x57
	GAS          = 0x5a
	JUMPDEST     = 0x5b
	PUSH1        = 0x60
	PUSH2        = 0x61
	PUSH20       = 0x73
	PUSH32       = 0x7f
	DUP1         = 0x80
	SWAP1        = 0x90
	LOG0         = 0xa0
	LOG1         = 0xa1
	LOG2         = 0xa2
	CREATE       = 0xf0
	CALL         = 0xf1
	RETURN       = 0xf3
	CREATE2      = 0xf5
	REVERT       = 0xfd
	INVALID      = 0xfe
	SELFDESTRUCT = 0xff
)

type Asm struct{ B []byte }

func (a *Asm) Op(ops ...byte) *Asm { a.B = append(a.B, ops...); return a }
func (a *Asm) Push1(v byte) *Asm   { a.B = append(a.B, PUSH1, v); return a }
func (a *Asm) Push2(v int) *Asm    { a.B = append(a.B, PUSH2, byte(v>>8), byte(v)); return a }
func (a *Asm) PushBytes(b []byte) *Asm {
	if len(b) == 0 || len(b) > 32 {
		panic("push size")
	}
	a.B = append(a.B, byte(PUSH1+len(b)-1))
	a.B = append(a.B, b...)
	return a
}

// Deploy wraps runtime code into init code that returns it.
func Deploy(runtime []byte) []byte {
	a := &Asm{}
	n := len(runtime)
	// CODECOPY(destOffset=0, offset=<hdr>, size=n); RETURN(0, n)
	hdr := 2 + 3 + 2 + 1 + 3 + 2 + 1 // computed below: PUSH2 n, PUSH2 off, PUSH1 0, CODECOPY, PUSH2 n, PUSH1 0, RETURN
	hdr = 3 + 3 + 2 + 1 + 3 + 2 + 1
	a.Push2(n).Push2(hdr).Push1(0).Op(CODECOPY).Push2(n).Push1(0).Op(RETURN)
	if len(a.B) != hdr {
		panic("deploy header size")
	}
	return append(a.B, runtime...)
}

// Program is a deployable contract with a description of how to call it.
type Program struct {
	Name     string
	Init     []byte
	MayBurn  bool // self-destructs (possibly into itself)
	Payable  bool
	NeedsArg bool // calldata = 32-byte left-padded address argument
}

// Counter: slot0 += callvalue + 1 on every call; logs the new value (LOG1 topic = caller); returns it.
func counter() []byte {
	a := &Asm{}
	a.Push1(0).Op(SLOAD).Op(CALLVALUE).Op(ADD).Push1(1).Op(ADD) // v
	a.Op(DUP1).Push1(0).Op(SSTORE)                              // slot0 = v
	a.Op(DUP1).Push1(0).Op(MSTORE)                              // mem[0] = v
	a.Op(CALLER).Push1(32).Push1(0).Op(LOG1)                    // log1(mem[0..32], topic caller)
	a.Push1(32).Push1(0).Op(RETURN)
	return a.B
}

// Reverter: stores then always reverts with 4 bytes of data.
func reverter() []byte {
	a := &Asm{}
	a.Push1(7).Push1(1).Op(SSTORE)
	a.PushBytes([]byte{0xde, 0xad, 0xbe, 0xef}).Push1(0).Op(MSTORE)
	a.Push1(4).Push1(28).Op(REVERT)
	return a.B
}

// Forwarder: forwards the whole call value to the address given as calldata word 0; records the result in slot 2.
func forwarder() []byte {
	a := &Asm{}
	// CALL(gas, addr, value, 0,0,0,0)
	a.Push1(0).Push1(0).Push1(0).Push1(0).Op(CALLVALUE).Push1(0).Op(CALLDATALOAD).Op(GAS).Op(CALL)
	a.Push1(2).Op(SSTORE)
	a.Op(SELFBALANCE).Push1(0).Op(MSTORE).Push1(32).Push1(0).Op(RETURN)
	return a.B
}

// Nester: calls the address in calldata word 0 with half of the call value, ignores failure
// (inner revert must roll back only the inner effects), then stores the inner result and its own balance.
func nester() []byte {
	a := &Asm{}
	a.Push1(0).Push1(0).Push1(0).Push1(0)
	a.Push1(2).Op(CALLVALUE).Op(DIV)
	a.Push1(0).Op(CALLDATALOAD).Op(GAS).Op(CALL)
	a.Push1(3).Op(SSTORE)
	a.Op(SELFBALANCE).Push1(4).Op(SSTORE)
	a.Op(STOP)
	return a.B
}

// Destructor: self-destructs to the address in calldata word 0 (to itself when no calldata).
func destructor() []byte {
	a := &Asm{}
	a.Op(CALLDATASIZE).Push1(7).Op(JUMPI) // if calldatasize != 0 goto 7
	a.Op(ADDRESS).Op(SELFDESTRUCT)        // 5,6
	a.Op(INVALID)                         // 6
	a.Op(JUMPDEST)                        // 7
	a.Push1(0).Op(CALLDATALOAD).Op(SELFDESTRUCT)
	return a.B
}

// Factory: CREATEs a child (reverter or counter runtime) endowed with the call value, stores the child's address in slot 0.
func factory(child []byte) []byte {
	init := Deploy(child)
	a := &Asm{}
	// copy child init code (appended after this code) into memory, then CREATE(value, 0, len)
	body := &Asm{}
	body.Push2(len(init)).Push2(0 /*patched*/).Push1(0).Op(CODECOPY)
	body.Push2(len(init)).Push1(0).Op(CALLVALUE).Op(CREATE)
	body.Push1(0).Op(SSTORE).Op(STOP)
	off := len(body.B)
	body.B[4], body.B[5] = byte(off>>8), byte(off)
	a.B = append(body.B, init...)
	return a.B
}

// BalanceReader: stores BALANCE(arg) in slot 5 and SELFBALANCE in slot 6.
func balanceReader() []byte {
	a := &Asm{}
	a.Push1(0).Op(CALLDATALOAD).Op(BALANCE).Push1(5).Op(SSTORE)
	a.Op(SELFBALANCE).Push1(6).Op(SSTORE).Op(STOP)
	return a.B
}

// GasBurner: loops until out of gas.
func gasBurner() []byte {
	a := &Asm{}
	a.Op(JUMPDEST).Push1(1).Push1(0).Op(SSTORE).Push1(0).Op(JUMP)
	return a.B
}

// Pick returns one program template.
func Pick(r *rng.R) Program {
	switch r.Pick(5, 3, 3, 3, 2, 3, 2, 1) {
	case 0:
		return Program{Name: "counter", Init: Deploy(counter()), Payable: true}
	case 1:
		return Program{Name: "reverter", Init: Deploy(reverter()), Payable: true}
	case 2:
		return Program{Name: "forwarder", Init: Deploy(forwarder()), Payable: true, NeedsArg: true}
	case 3:
		return Program{Name: "nester", Init: Deploy(nester()), Payable: true, NeedsArg: true}
	case 4:
		return Program{Name: "destructor", Init: Deploy(destructor()), Payable: true, MayBurn: true}
	case 5:
		child := reverter()
		if r.Bool() {
			child = counter()
		}
		return Program{Name: "factory", Init: Deploy(factory(child)), Payable: true}
	case 6:
		return Program{Name: "balancereader", Init: Deploy(balanceReader()), NeedsArg: true}
	default:
		return Program{Name: "gasburner", Init: Deploy(gasBurner())}
	}
}

// Garbage returns init code that fails in some way (bad opcode, revert in constructor, runaway).
func Garbage(r *rng.R) []byte {
	switch r.Intn(3) {
	case 0:
		return []byte{INVALID}
	case 1:
		a := &Asm{}
		a.Push1(0).Push1(0).Op(REVERT)
		return a.B
	default:
		return r.Bytes(r.Range(1, 40))
	}
}

func Word(addr []byte) []byte {
	w := make([]byte, 32)
	copy(w[32-len(addr):], addr)
	return w
}

// BalanceReaderInit is the init code of the balance-reader template (used by scenario templates).
func BalanceReaderInit() []byte { return Deploy(balanceReader()) }
func GasBurnerInit() []byte     { return Deploy(gasBurner()) }

// BalanceView: returns BALANCE(arg) as a 32-byte word and changes nothing (used by the vm_call probes).
func balanceView() []byte {
	a := &Asm{}
	a.Push1(0).Op(CALLDATALOAD).Op(BALANCE).Push1(0).Op(MSTORE).Push1(32).Push1(0).Op(RETURN)
	return a.B
}
func BalanceViewInit() []byte { return Deploy(balanceView()) }
