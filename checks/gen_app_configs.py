#!/usr/bin/env python3
"""Writes checks/Cxx.json for the application-level properties (one place for shared text)."""
import json, os

V = os.path.dirname(os.path.dirname(os.path.abspath(__file__)))

KERNEL = "Lean 4.33.0 kernel; axioms propext, Classical.choice, Quot.sound only (audited per theorem on every run; leanchecker in the thorough tier)"
MODEL = ("hand-written application model lean/Rigo/{Types,StakeLogic,App,Block,Query}.lean of node/, ctrlers/{account,stake,gov}, at the ledger "
         "abstraction proved in C18, tied to /repo by the `app` correspondence stream: generated block histories run on the real RigoApp in-process "
         "(build tag verif) and on the model, every response, validator-update list and a full state dump after every block compared")
PARAMS = ("signature recovery (secp256k1/SHA-256), protobuf/JSON decoding, go-ethereum's EVM (oracle: observed result per contract transaction), "
          "IAVL/LevelDB and Tendermint (simulated: validator updates take effect at h+2, LastCommitInfo lists the validators of h-1, "
          "UpdateWithChangeSet acceptance rules) are parameters of the model, not modelled code")
MON = "implementation-level monitor written from the property statement, independent of the Lean model, run on every generated history"

P = {
 "C01": dict(args=["-replicas", "-checktx", "-queries", "-evm"], facts=["nondeterminism"],
   text="Machine-checked order-independence of every node-local choice on the consensus path (Go map ranges, sort comparators): sorted write sequence of ledger commits, strict total orders behind every sort.Sort, canonical validator-update diff, order-free cache refresh / EVM sync-out / revert; the model's step function is deterministic by construction. The nondeterminism inventory is re-extracted from /repo on every run and must match the reviewed expectation (each site mapped to its lemma).",
   note="Trusted: Lean kernel; the extractor's inventory (syntactic, call-graph based); determinism of IAVL, LevelDB, go-ethereum given identical call sequences; Go's sort.Sort being a deterministic function of its input for the one comparator with ties (vote options). Replica-vs-replica comparison of real nodes supports, never replaces, the theorems.",
   tech="Lean 4 permutation-invariance and sort-uniqueness theorems + regenerated nondeterminism inventory + two-replica differential run"),
 "C02": dict(args=["-checktx", "-evm"], facts=[],
   text="Conservation of value as an invariant of the application model: per-operation theorems (transfer, staking, unstaking incl. forced release, withdrawal, fee hand-over, refunds, slashing, jailing, commit) over a generic sum-over-map lemma, lifted over reachable states under explicit no-wrap bounds; the EVM enters through an oracle hypothesis (creates no value). The full statement is false in the code as in the model where two stakes share an unbonding-ledger key (proved counter-example; known finding), so the lifted theorem carries the hypothesis that excludes it.",
   note="Trusted: Lean kernel; hand-written model validated by differential runs; EVM value conservation is an assumption on go-ethereum (validated by C17's reference run); partial: see theorem names ending in _partial / *_statement in RigoProps/C02.lean.",
   tech="Lean 4 inductive invariant (sum conservation) + differential correspondence + conservation monitor on the real app"),
 "C03": None,
 "C04": dict(args=["-checktx", "-evm"], facts=["tx_dispatch"],
   text="Nonce discipline proved on the model's transaction handler: success implies nonce equality and +1 for the sender only, failure leaves every nonce unchanged, no operation ever decreases a nonce, hence a (sender, nonce) pair succeeds at most once in any history.",
   note="Trusted: Lean kernel; model validated differentially; contract path through the EVM oracle hypothesis (sender nonce +1, others non-decreasing).",
   tech="Lean 4 per-step theorems + monotonicity induction + differential correspondence + nonce monitor"),
 "C05": dict(args=["-checktx", "-evm"], facts=["tx_dispatch"],
   text="Atomicity proved on the model: a DeliverTx that returns a non-zero code leaves the observable state (balances, nonces, names, stakes, unbonding, rewards, proposals, parameters, fee sum, limiter) unchanged up to empty account records, for every failure point of every transaction type, under an explicit fee no-wrap bound.",
   note="Trusted: Lean kernel; model validated differentially; EVM failure = nothing synced out (oracle); empty account records created by failed transactions are identified with absent accounts (no query distinguishes them).",
   tech="Lean 4 case analysis over validation/execution failure points + differential correspondence + before/after dump monitor"),
 "C06": dict(args=["-checktx", "-queries", "-replicas", "-restarts", "-evm"], facts=["commit_order"],
   text="Non-interference proved by unwinding on the model: CheckTx changes only the mempool views, consensus operations never read them, queries are pure; hence the outputs and consensus state of any schedule equal those of the schedule with all CheckTx/Query calls erased, and the mempool view is reset at commit.",
   note="Trusted: Lean kernel; model validated differentially with CheckTx/Query lines interleaved; the quiet-vs-noisy replica run on real nodes supports the theorem. The defect that made this false (limiter shared with CheckTx) was repaired in /repo (fix commit c20f06e).",
   tech="Lean 4 unwinding / non-interference proof + differential correspondence + quiet-vs-noisy replica monitor"),
 "C07": dict(args=["-restarts", "-replicas", "-checktx", "-evm"], facts=[],
   text="Restart equivalence on the model: at every block boundary all ledger views equal the committed state and a restart loses only allDelegs, limiter (both recomputed by the next BeginBlock before use) and lastValidators. The full statement is false in the code as in the model (lastValidators is not persisted: proved witness; known finding), the partial theorem states exactly what is preserved.",
   note="Trusted: Lean kernel; model validated differentially with restart operations (real side: data directory copied and reopened); app hashes are functions of committed ledgers whose IAVL roots are not modelled. Partial: restart_equiv only up to lastValidators.",
   tech="Lean 4 boundary-coherence invariant + witness of the non-persisted validator list + differential correspondence + restarted-vs-continuous replica monitor"),
 "C10": dict(args=["-restarts", "-evm"], facts=[], extra_streams=[{"name": "commit", "args": ["-prop", "C10"], "timeout_quick": 900, "timeout_thorough": 3400}],
   text="Merge-diff correctness of the validator-update computation (applying the updates to the old address-sorted set yields the new one), well-formedness for Tendermint's acceptance rules, sortedness/uniqueness of the orders used, and the step relation between the reported list and the selected top-N of eligible committed delegatees. Known deviations (list starts empty at genesis and after restart; zero-power delegatees; emptying the set) are proved witnesses and known findings.",
   note="Trusted: Lean kernel; model validated differentially; Tendermint's UpdateWithChangeSet transcribed in the proofs file and in tmsim. Partial: the fold-from-genesis statement holds only from the reported list (which starts empty).",
   tech="Lean 4 functional-induction proof of the merge diff + Tendermint acceptance spec + differential correspondence + tmsim fold monitor"),
 "C11": dict(args=["-checktx", "-evm"], facts=[],
   text="Delegatee bookkeeping invariant (total = sum of bonded stakes, self = sum of own stakes, every stake targets its delegatee) proved inductive over all operations and reachable states, total-power query equals the sum; single location of stakes under unique stake keys, with the proved counter-example for colliding genesis keys (known finding).",
   note="Trusted: Lean kernel; model validated differentially; UniqueTxHashes (sha256 / Tendermint) is a hypothesis of the single-location theorem.",
   tech="Lean 4 inductive invariant + differential correspondence + recomputed-sums monitor"),
 "C12": dict(args=["-checktx", "-evm"], facts=[],
   text="Owner-only release, loss of voting power at release, refund height fixed at release, and exactly-once refund of power x 10^18 to the owner at the first block end at which the stake is committed and mature, proved over the model's ghost refund log; the colliding-key case is excluded by hypothesis (known finding).",
   note="Trusted: Lean kernel; model validated differentially; refunds observed on the real app as EndBlock balance deltas.",
   tech="Lean 4 theorems over the refund log + differential correspondence + refund monitor"),
 "C13": dict(args=["-checktx", "-evm"], facts=["constants"],
   text="Issuance equation of BeginBlock (per account: reward-per-power times the powers of its stakes under signing validators at the ledger version the code reads), reward balance invariant, and exact withdrawal semantics proved on the model; that vote powers equal the ledger totals at that version is the simulated Tendermint pipeline (tmsim). Heights 2-4 read the wrong version (known finding).",
   note="Trusted: Lean kernel; model validated differentially; tmsim's +2 validator pipeline; the lag constant 4 is re-extracted from /repo.",
   tech="Lean 4 issuance / withdrawal theorems + differential correspondence + reward monitor"),
 "C14": dict(args=["-evm"], facts=[],
   text="Exact slashing arithmetic for stakes and for voting weights in open proposals, frame (nothing else changes), and the jailing threshold with its effect (all stakes to unbonding with refund height H + period) proved on the model.",
   note="Trusted: Lean kernel; model validated differentially with evidence and absence bursts; the signing window is the one the code uses (inclusive, window+1 heights).",
   tech="Lean 4 arithmetic/frame theorems + differential correspondence + slash/jail monitor"),
 "C15": dict(args=["-checktx", "-queries", "-evm"], facts=["merge_fields"],
   text="Tally invariant, snapshot voters, validators-only proposals, window-restricted re-votes, parameter change only through a frozen proposal with a 2/3 majority at its applying height, field-wise merge semantics over the extracted 19-field list, and active parameters = committed query, proved on the model.",
   note="Trusted: Lean kernel; model validated differentially; JSON parsing of options is a parameter (parsed result supplied by the real decoder); MergeGovParams field list re-extracted from /repo on every run.",
   tech="Lean 4 invariants over proposals and parameters + regenerated merge field list + differential correspondence + governance monitor"),
 "C16": dict(args=["-checktx", "-evm"], facts=["tx_dispatch"],
   text="Admission (price = governance price, gas x price >= minimum fee, intrinsic gas for contracts), exact native charge gas x price with gasUsed = gas, fee accumulation only for successful transactions, proposer credited exactly the block's fee sum (burnt iff no proposer), proved on the model under an explicit no-wrap bound.",
   note="Trusted: Lean kernel; model validated differentially; contract charge through the EVM oracle (gasUsed <= gas).",
   tech="Lean 4 per-step arithmetic theorems + differential correspondence + fee monitor"),
 "C19": dict(args=["-queries", "-restarts", "-checktx", "-evm"], facts=[],
   text="Queries are pure functions of the committed history; history is append-only (only Commit appends), so an answer for height h never changes; mid-block and mempool state are invisible to queries; each path returns the committed value of the requested version, proved on the model.",
   note="Trusted: Lean kernel; model validated differentially with queries of every path at random heights and moments (canonicalised JSON); IAVL's immutable versions not modelled.",
   tech="Lean 4 history-immutability and purity theorems + differential correspondence + remembered-answers monitor"),
}

for pid, c in P.items():
    if c is None:
        continue
    cfg = {
        "props_module": "RigoProps." + pid,
        "level": "proof",
        "streams": [{"name": "app", "args": ["-prop", pid] + c["args"], "timeout_quick": 900, "timeout_thorough": 3400}] + c.get("extra_streams", []),
        "facts": c["facts"],
        "trusted_base": [KERNEL, MODEL, PARAMS, MON],
        "assumptions": [c["note"]],
        "level_text": c["text"],
        "level_note": c["note"],
        "technique": c["tech"],
    }
    json.dump(cfg, open(os.path.join(V, "checks", pid + ".json"), "w"), indent=1)
    print("wrote", pid)
